//go:build vfhook

// Verification hook (read-only accessor), compiled into package memberlist
// only through `go test -tags vfhook -overlay ...` by /verif/vf. It is not
// part of the repository.
package memberlist

// VfPendingAcks returns the number of pending probe/relay acknowledgement
// handlers.
func VfPendingAcks(m *Memberlist) int {
	m.ackLock.Lock()
	defer m.ackLock.Unlock()
	return len(m.ackHandlers)
}
