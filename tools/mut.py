#!/usr/bin/env python3
"""Sensitivity helper: apply a textual mutation to a scratch copy of /repo and
run a check against it.   mut.py <ID> <file> <old> <new> [--count N] [--tier T] [--keep]
The scratch copy lives under /tmp/vfmut and is removed afterwards."""
import sys, os, subprocess, shutil, hashlib, tempfile
pid, f, old, new = sys.argv[1:5]
rest = sys.argv[5:]
tier = "quick"
occ = 1
if "--tier" in rest: tier = rest[rest.index("--tier")+1]
if "--occ" in rest: occ = int(rest[rest.index("--occ")+1])
d = os.path.join("/tmp/vfmut", hashlib.sha1((f+old+new).encode()).hexdigest()[:10])
shutil.rmtree(d, ignore_errors=True)
os.makedirs("/tmp/vfmut", exist_ok=True)
subprocess.check_call(["rsync", "-a", "--exclude", ".git", "/repo/", d + "/"])
p = os.path.join(d, f)
s = open(p).read()
n = s.count(old)
if n < occ:
    print("MUT: pattern occurs %d times in %s" % (n, f)); shutil.rmtree(d); sys.exit(3)
idx = -1
for _ in range(occ):
    idx = s.index(old, idx + 1)
s = s[:idx] + new + s[idx+len(old):]
open(p, "w").write(s)
r = subprocess.run(["go", "build", "./..."], cwd=d, env=dict(os.environ, GOFLAGS="-mod=mod", GOPROXY="off"), stdout=subprocess.PIPE, stderr=subprocess.STDOUT, text=True)
if r.returncode != 0:
    print("MUT: does not compile:\n" + r.stdout[-800:]); shutil.rmtree(d); sys.exit(3)
env = dict(os.environ, VF_REPO=d)
r = subprocess.run(["/verif/vf", "check", pid, "--tier", tier], env=env, stdout=subprocess.PIPE, stderr=subprocess.STDOUT, text=True)
out = r.stdout.splitlines()
print("\n".join(l[:300] for l in out[-8:]))
print("MUT rc=%d  (%s: %r -> %r)" % (r.returncode, f, old[:60], new[:60]))
if "--keep" not in rest:
    shutil.rmtree(d, ignore_errors=True)
