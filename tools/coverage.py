#!/usr/bin/env python3
"""Which blocks of package memberlist do the generated checks never execute?

  coverage.py [--checks 60] [--out /tmp/vfcov]

Builds every harness/props/cNN package with -cover -coverpkg=github.com/hashicorp/memberlist, runs all its tests
briefly (rapid checks as given), merges the profiles and prints, per source file, the covered/total block counts and
every uncovered block with its first lines. A survey tool for finding generator blind spots (it found that
net_transport.go, the default-transport branch of Create and the older SendTo* entry points were never reached);
it decides nothing and is not part of any registered check. Scratch output goes to --out (remove it afterwards)."""
import sys, os, subprocess, glob, re, collections, hashlib
args = sys.argv[1:]
def opt(n, d): return args[args.index(n) + 1] if n in args else d
checks, out = opt("--checks", "60"), opt("--out", "/tmp/vfcov")
os.makedirs(out, exist_ok=True)
env = dict(os.environ, GOFLAGS="-mod=mod", GOPROXY="off", GODEBUG="randseednop=0"); env.pop("GOSUMDB", None)
subprocess.check_call(["/verif/vf", "setup"], stdout=subprocess.DEVNULL)
mf = "/verif/.work/go-%s.mod" % hashlib.sha1(b"/repo").hexdigest()[:8]
pk = sorted(os.path.basename(p) for p in glob.glob("/verif/harness/props/c*"))
procs = []
for p in pk:
    procs.append(subprocess.Popen(["go", "test", "-c", "-cover", "-coverpkg=github.com/hashicorp/memberlist", "-modfile=" + mf, "-o", "%s/%s.test" % (out, p), "./props/" + p],
                                  cwd="/verif/harness", env=env, stdout=subprocess.DEVNULL, stderr=subprocess.DEVNULL))
for x in procs: x.wait()
procs = []
for p in pk:
    e = dict(env, VF_STATS="%s/%s.stats" % (out, p), VF_KNOWN="/verif/known_findings.json", VF_REPLAY_DIR=out + "/replays")
    procs.append(subprocess.Popen(["timeout", "600", "%s/%s.test" % (out, p), "-test.run", "^Test", "-rapid.checks=" + checks, "-rapid.seed=3", "-rapid.nofailfile",
                                   "-test.timeout=0", "-test.coverprofile=%s/%s.out" % (out, p)], cwd="/verif/harness/props/" + p, env=e,
                                  stdout=open("%s/%s.log" % (out, p), "w"), stderr=subprocess.STDOUT))
for x in procs: x.wait()
blocks = {}
for f in glob.glob(out + "/*.out"):
    for l in open(f):
        if l.startswith("mode:"): continue
        k, n, c = l.rsplit(" ", 2)
        blocks[k] = max(blocks.get(k, 0), int(c))
unc = collections.defaultdict(list); tot = collections.Counter(); cov = collections.Counter()
for k, c in blocks.items():
    f, rng = k.split(":"); f = f.split("/")[-1]; tot[f] += 1
    if c > 0: cov[f] += 1
    else:
        m = re.match(r"(\d+)\.(\d+),(\d+)\.(\d+)", rng); unc[f].append((int(m.group(1)), int(m.group(3))))
for f in sorted(tot):
    print("%-22s %4d/%4d blocks covered" % (f, cov[f], tot[f]))
for f in sorted(unc):
    src = open("/repo/" + f).read().split("\n")
    print("=====", f)
    for a, b in sorted(unc[f]):
        print("  %d-%d: %s" % (a, b, " | ".join(x.strip() for x in src[a - 1:min(b, a + 2)])[:170]))
