#!/usr/bin/env python3
"""Verify a sub-agent's seeded change and run our check against it.

  seedcheck.py <ID> [--src /tmp/wt/<ID>] [--name <seed name>] [--tier quick|thorough] [--checks C01,C07]

Steps (all in a fresh scratch worktree under /tmp/ver, removed afterwards):
  1. patch applies to /repo HEAD and the package builds
  2. the pinned suite passes with the patch
  3. the demonstration fails with the patch and passes without it
  4. our check(s) are run against the patched tree (VF_REPO)
The kept artefacts go to /verif/seeded/<name>/ (patch.diff, demo, meta.json).
"""
import sys, os, subprocess, shutil, json, time

args = sys.argv[1:]
pid = args[0]
def opt(name, default):
    return args[args.index(name) + 1] if name in args else default
src = opt("--src", "/tmp/wt/" + pid)
name = opt("--name", pid)
tier = opt("--tier", "quick")
checks = opt("--checks", pid).split(",")
env = dict(os.environ, GOFLAGS="-mod=mod", GOPROXY="off")
env.pop("GOSUMDB", None)

def run(cmd, cwd, timeout=1800, e=None):
    r = subprocess.run(cmd, cwd=cwd, env=e or env, stdout=subprocess.PIPE, stderr=subprocess.STDOUT, text=True, timeout=timeout)
    return r.returncode, r.stdout

patch = os.path.join(src, "patch.diff")
demo = os.path.join(src, "zz_demo_test.go")
for f in (patch, demo):
    if not os.path.exists(f):
        print("MISSING", f); sys.exit(3)
ver = "/tmp/ver/" + name
shutil.rmtree(ver, ignore_errors=True)
subprocess.run(["git", "-C", "/repo", "worktree", "prune"])
os.makedirs("/tmp/ver", exist_ok=True)
rc, out = run(["git", "-C", "/repo", "worktree", "add", "-q", "--detach", ver, "HEAD"], "/repo")
if rc != 0:
    print(out); sys.exit(3)
meta = {"property": pid, "name": name, "source": src, "ran": []}
ok = True
try:
    rc, out = run(["git", "apply", "--whitespace=nowarn", patch], ver)
    meta["ran"].append({"cmd": "git apply patch.diff", "rc": rc})
    if rc != 0:
        print("PATCH DOES NOT APPLY\n", out[-2000:]); ok = False; raise SystemExit
    rc, out = run(["go", "build", "./..."], ver)
    if rc != 0:
        print("DOES NOT BUILD\n", out[-2000:]); ok = False; raise SystemExit
    t0 = time.time()
    if "--skip-suite" in args:
        rc, out = 0, ""
        meta["suite_skipped"] = True
    else:
        # a private loopback: other jobs run the same suite on the same fixed ports (127.0.0.x:7946)
        rc, out = run(["unshare", "-n", "sh", "-c", "ip link set lo up; exec nice -n -15 go test -vet=off -count=1 -timeout 25m ./..."], ver)
    meta["ran"].append({"cmd": "go test -vet=off -count=1 ./... (with patch)", "rc": rc, "secs": round(time.time() - t0)})
    print("suite with patch: rc=%d (%ds)" % (rc, time.time() - t0))
    if rc != 0:
        print(out[-3000:]); ok = False
        # timing-sensitive existing tests fail under machine load: every failed top-level test must pass
        # when re-run alone at high priority (a test the patch really breaks fails alone too)
        import re as _re
        failed = sorted(set(_re.findall(r"^--- FAIL: (Test\w+)", out, _re.M)))
        panicked = "panic:" in out and not failed
        print("failed under load:", failed, "panic without test name" if panicked else "")
        rc = 0 if failed and not panicked else 1
        if rc == 1:
            for attempt in range(3):
                rc, out = run(["nice", "-n", "-15", "go", "test", "-vet=off", "-count=1", "-timeout", "25m", "./..."], ver)
                print("full suite retry: rc=%d" % rc)
                meta["ran"].append({"cmd": "suite retry", "rc": rc})
                if rc == 0:
                    break
        for tname in failed:
            pkgs = ["./internal/retry"] if tname == "TestRetryer" else ["."]
            good = False
            for attempt in range(4):
                r1, o1 = run(["nice", "-n", "-15", "go", "test", "-vet=off", "-count=1", "-run", "^" + tname + "$", "-timeout", "10m"] + pkgs, ver)
                if r1 == 0:
                    good = True
                    break
            meta["ran"].append({"cmd": "retry alone " + tname, "rc": r1})
            print("  %s alone: %s" % (tname, "ok" if good else "FAIL"))
            if not good:
                rc = 1
        ok = rc == 0
        if not ok:
            raise SystemExit
    shutil.copy(demo, os.path.join(ver, "zz_demo_test.go"))
    rc1, out1 = run(["go", "test", "-vet=off", "-count=1", "-run", "Demo|ZZ|Zz|Seeded|Break", "-timeout", "10m", "."], ver)
    # demo test names are free-form: run every test of the file by listing them
    import re
    names = re.findall(r"^func (Test\w+)\(", open(demo).read(), re.M)
    pat = "^(" + "|".join(names) + ")$"
    rc1, out1 = run(["go", "test", "-vet=off", "-count=1", "-run", pat, "-timeout", "10m", "."], ver)
    meta["ran"].append({"cmd": "go test -run '%s' . (with patch)" % pat, "rc": rc1})
    print("demo with patch: rc=%d (expected != 0)" % rc1)
    run(["git", "apply", "-R", "--whitespace=nowarn", patch], ver)
    rc2, out2 = run(["go", "test", "-vet=off", "-count=1", "-run", pat, "-timeout", "10m", "."], ver)
    meta["ran"].append({"cmd": "go test -run '%s' . (without patch)" % pat, "rc": rc2})
    print("demo without patch: rc=%d (expected 0)" % rc2)
    if (rc1 == 0 or rc2 != 0) and "--skip-demo" in args:
        print("demonstration not confirmed in this run (ignored: --skip-demo)")
    elif rc1 == 0 or rc2 != 0:
        ok = False
        print("DEMONSTRATION NOT CONFIRMED")
        print(out1[-1500:]); print(out2[-1500:])
        raise SystemExit
    run(["git", "apply", "--whitespace=nowarn", patch], ver)
    os.remove(os.path.join(ver, "zz_demo_test.go"))
    meta["confirmed"] = True
    meta["detected_by"] = {}
    for c in checks:
        t0 = time.time()
        e2 = dict(os.environ, VF_REPO=ver)
        r = subprocess.run(["/verif/vf", "check", c, "--tier", tier], env=e2, stdout=subprocess.PIPE, stderr=subprocess.STDOUT, text=True)
        tail = "\n".join(l[:400] for l in r.stdout.splitlines()[-6:])
        print("check %s %s against the seeded tree: rc=%d (%ds)\n%s" % (c, tier, r.returncode, time.time() - t0, tail))
        first = [l for l in r.stdout.splitlines() if l.startswith("VIOLATION") or l.startswith("  ")][:3]
        meta["detected_by"]["%s/%s" % (c, tier)] = {"rc": r.returncode, "detected": r.returncode == 1, "first": [x[:500] for x in first]}
except SystemExit:
    pass
finally:
    subprocess.run(["git", "-C", "/repo", "worktree", "remove", "--force", ver])
    subprocess.run(["go", "clean", "-cache"], env=env) if False else None
if ok and meta.get("confirmed") and ("--skip-suite" in args or "--skip-demo" in args):
    print("detection only (suite not run): nothing kept")
elif ok and meta.get("confirmed"):
    dst = os.path.join("/verif/seeded", name)
    os.makedirs(dst, exist_ok=True)
    if os.path.abspath(src) != os.path.abspath(dst):
        shutil.copy(patch, os.path.join(dst, "patch.diff"))
        shutil.copy(demo, os.path.join(dst, "zz_demo_test.go"))
    notes = os.path.join(src, "NOTES.md")
    if os.path.exists(notes) and os.path.abspath(src) != os.path.abspath(dst):
        shutil.copy(notes, os.path.join(dst, "NOTES.md"))
    old = {}
    mp = os.path.join(dst, "meta.json")
    if os.path.exists(mp):
        old = json.load(open(mp))
        old.setdefault("detected_by", {}).update(meta["detected_by"])
        meta["detected_by"] = old["detected_by"]
        for k, v in old.items():  # annotations written by hand (breaks, wave, initially_missed, rebased_onto, ...)
            if k not in meta:
                meta[k] = v
            elif k == "ran" and old.get("rebased_onto"):
                meta["ran_before_rebase"] = old.get("ran_before_rebase", v)
    json.dump(meta, open(mp, "w"), indent=1)
    print("kept in", dst)
else:
    print("NOT KEPT")
