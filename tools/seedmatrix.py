#!/usr/bin/env python3
"""Re-run the registered checks against every kept seeded change (detection only).

  seedmatrix.py [--tier quick] [--only C05-2,C17-3]

For each /verif/seeded/<name>/ (patch.diff + meta.json): a scratch worktree of /repo HEAD is created
under /tmp/ver, the patch applied, and the property's own check (plus any other check recorded in
meta.json 'caught_by') is run against it with VF_REPO. The outcome goes to /verif/seeded/MATRIX.json
and the worktree is removed. Nothing is committed to /repo.
"""
import sys, os, subprocess, json, time, re

args = sys.argv[1:]
def opt(name, default):
    return args[args.index(name) + 1] if name in args else default
tier = opt("--tier", "quick")
only = opt("--only", "")
root = "/verif/seeded"
names = sorted(d for d in os.listdir(root) if os.path.isdir(os.path.join(root, d)) and os.path.exists(os.path.join(root, d, "patch.diff")))
if only:
    names = [n for n in names if n in only.split(",")]
env = dict(os.environ, GOFLAGS="-mod=mod", GOPROXY="off")
env.pop("GOSUMDB", None)
outp = os.path.join(root, "MATRIX.json")
matrix = {}
if os.path.exists(outp):
    try:
        matrix = json.load(open(outp))
    except Exception:
        matrix = {}
for n in names:
    meta = json.load(open(os.path.join(root, n, "meta.json")))
    prop = meta.get("property") or n.split("-")[0]
    checks = [prop]
    for c in meta.get("caught_by") or []:
        c = c.split("/")[0]
        if c not in checks:
            checks.append(c)
    ver = "/tmp/ver/mx-" + n
    subprocess.run(["rm", "-rf", ver])
    subprocess.run(["git", "-C", "/repo", "worktree", "prune"])
    os.makedirs("/tmp/ver", exist_ok=True)
    r = subprocess.run(["git", "-C", "/repo", "worktree", "add", "-q", "--detach", ver, "HEAD"], capture_output=True, text=True)
    if r.returncode != 0:
        print(n, "worktree failed", r.stderr[:200]); continue
    row = {}
    try:
        r = subprocess.run(["git", "apply", "--whitespace=nowarn", os.path.join(root, n, "patch.diff")], cwd=ver, capture_output=True, text=True)
        if r.returncode != 0:
            row["error"] = "patch does not apply: " + r.stderr[:200]
        else:
            for c in checks:
                t0 = time.time()
                rr = subprocess.run(["/verif/vf", "check", c, "--tier", tier], env=dict(os.environ, VF_REPO=ver), capture_output=True, text=True)
                first = [l for l in rr.stdout.splitlines() if l.startswith("  ")][:1]
                row[c] = {"rc": rr.returncode, "detected": rr.returncode == 1, "secs": round(time.time() - t0), "first": [x[:300] for x in first]}
    finally:
        subprocess.run(["git", "-C", "/repo", "worktree", "remove", "--force", ver])
    matrix[n] = row
    det = [c for c, v in row.items() if isinstance(v, dict) and v.get("detected")]
    print("%-8s %s" % (n, "caught by " + ",".join(det) if det else "NOT CAUGHT " + json.dumps(row)[:300]), flush=True)
    json.dump(matrix, open(outp, "w"), indent=1, sort_keys=True)
