#!/usr/bin/env python3
"""Re-base kept seeded patches whose context changed after a fix: commit in /repo.
For every /verif/seeded/*/patch.diff that no longer applies to /repo HEAD, a three-way apply is tried in a scratch
worktree; a clean result replaces patch.diff (the original is kept as patch.orig.diff) and meta.json notes the rebase."""
import subprocess, glob, os, json, shutil
head = subprocess.check_output(["git", "-C", "/repo", "rev-parse", "--short", "HEAD"], text=True).strip()
for pd in sorted(glob.glob("/verif/seeded/*/patch.diff")):
    if subprocess.run(["git", "-C", "/repo", "apply", "--check", pd], stderr=subprocess.DEVNULL).returncode == 0:
        continue
    d = os.path.dirname(pd)
    wt = "/tmp/rebase-" + os.path.basename(d)
    subprocess.run(["git", "-C", "/repo", "worktree", "remove", "--force", wt], stderr=subprocess.DEVNULL)
    subprocess.check_call(["git", "-C", "/repo", "worktree", "add", "-q", "--detach", wt, "HEAD"])
    try:
        r = subprocess.run(["git", "apply", "--3way", "--whitespace=nowarn", pd], cwd=wt, stdout=subprocess.PIPE, stderr=subprocess.STDOUT, text=True)
        conflict = subprocess.run(["git", "diff", "--name-only", "--diff-filter=U"], cwd=wt, stdout=subprocess.PIPE, text=True).stdout.strip()
        if r.returncode != 0 or conflict:
            print("CONFLICT", d, r.stdout[-300:]); continue
        b = subprocess.run(["go", "build", "./..."], cwd=wt, env=dict(os.environ, GOFLAGS="-mod=mod", GOPROXY="off"))
        if b.returncode != 0:
            print("DOES NOT BUILD AFTER REBASE", d); continue
        new = subprocess.check_output(["git", "diff", "HEAD", "--", "*.go", ":!*_test.go"], cwd=wt, text=True)
        if not os.path.exists(os.path.join(d, "patch.orig.diff")):
            shutil.copy(pd, os.path.join(d, "patch.orig.diff"))
        open(pd, "w").write(new)
        mp = os.path.join(d, "meta.json")
        m = json.load(open(mp))
        m.setdefault("rebased_onto", []).append(head)
        json.dump(m, open(mp, "w"), indent=1)
        print("rebased", d)
    finally:
        subprocess.run(["git", "-C", "/repo", "worktree", "remove", "--force", wt])
