// Package wire is an independent mirror of memberlist's wire format, written
// from the protocol description (message type numbers, msgpack field names,
// compound framing, LZW wrapper, CRC header, AES-GCM envelope, label header,
// push/pull and user-message stream framing). It shares no code with
// memberlist; it is the generator back end for everything the harness injects
// into a real node and the differential decoder for everything a real node
// emits.
package wire

import (
	"bytes"
	"compress/lzw"
	"crypto/aes"
	"crypto/cipher"
	"encoding/binary"
	"errors"
	"fmt"
	"hash/crc32"
	"io"

	"github.com/hashicorp/go-msgpack/v2/codec"
)

// Message type numbers (part of the protocol).
const (
	PingMsg         = 0
	IndirectPingMsg = 1
	AckRespMsg      = 2
	SuspectMsg      = 3
	AliveMsg        = 4
	DeadMsg         = 5
	PushPullMsg     = 6
	CompoundMsg     = 7
	UserMsg         = 8
	CompressMsg     = 9
	EncryptMsg      = 10
	NackRespMsg     = 11
	HasCrcMsg       = 12
	ErrMsg          = 13
	HasLabelMsg     = 244
)

// Node states on the wire.
const (
	StateAlive   = 0
	StateSuspect = 1
	StateDead    = 2
	StateLeft    = 3
)

func TypeName(t byte) string {
	switch t {
	case PingMsg:
		return "ping"
	case IndirectPingMsg:
		return "indirectPing"
	case AckRespMsg:
		return "ack"
	case SuspectMsg:
		return "suspect"
	case AliveMsg:
		return "alive"
	case DeadMsg:
		return "dead"
	case PushPullMsg:
		return "pushPull"
	case CompoundMsg:
		return "compound"
	case UserMsg:
		return "user"
	case CompressMsg:
		return "compress"
	case EncryptMsg:
		return "encrypt"
	case NackRespMsg:
		return "nack"
	case HasCrcMsg:
		return "crc"
	case ErrMsg:
		return "err"
	case HasLabelMsg:
		return "label"
	}
	return fmt.Sprintf("type%d", t)
}

func StateName(s int) string {
	switch s {
	case StateAlive:
		return "alive"
	case StateSuspect:
		return "suspect"
	case StateDead:
		return "dead"
	case StateLeft:
		return "left"
	}
	return fmt.Sprintf("state%d", s)
}

// Mirror structs: same msgpack field names as the protocol uses.

type Ping struct {
	SeqNo      uint32
	Node       string
	SourceAddr []byte `codec:",omitempty"`
	SourcePort uint16 `codec:",omitempty"`
	SourceNode string `codec:",omitempty"`
}

type IndirectPing struct {
	SeqNo      uint32
	Target     []byte
	Port       uint16
	Node       string
	Nack       bool
	SourceAddr []byte `codec:",omitempty"`
	SourcePort uint16 `codec:",omitempty"`
	SourceNode string `codec:",omitempty"`
}

type Ack struct {
	SeqNo   uint32
	Payload []byte
}

type Nack struct {
	SeqNo uint32
}

type Err struct {
	Error string
}

type Suspect struct {
	Incarnation uint32
	Node        string
	From        string
}

type Alive struct {
	Incarnation uint32
	Node        string
	Addr        []byte
	Port        uint16
	Meta        []byte
	Vsn         []uint8
}

type Dead struct {
	Incarnation uint32
	Node        string
	From        string
}

type PushPullHeader struct {
	Nodes        int
	UserStateLen int
	Join         bool
}

type UserMsgHeader struct {
	UserMsgLen int
}

type PushNodeState struct {
	Name        string
	Addr        []byte
	Port        uint16
	Meta        []byte
	Incarnation uint32
	State       int
	Vsn         []uint8
}

type Compress struct {
	Algo uint8
	Buf  []byte
}

func mpEncode(v any) []byte {
	var buf bytes.Buffer
	hd := codec.MsgpackHandle{}
	enc := codec.NewEncoder(&buf, &hd)
	if err := enc.Encode(v); err != nil {
		panic(err)
	}
	return buf.Bytes()
}

func mpDecode(b []byte, v any) error {
	// slice based decoder: declared lengths are checked against the input before anything is allocated
	hd := codec.MsgpackHandle{}
	return codec.NewDecoderBytes(b, &hd).Decode(v)
}

// Encode returns [type][msgpack(v)].
func Encode(t byte, v any) []byte {
	return append([]byte{t}, mpEncode(v)...)
}

// Compound builds [compound][n][len16...][parts...]. n is written modulo 256,
// as a sender with more than 255 parts would (callers that want a
// well-formed message pass at most 255 parts).
func Compound(parts [][]byte) []byte {
	var buf bytes.Buffer
	buf.WriteByte(CompoundMsg)
	buf.WriteByte(byte(len(parts)))
	for _, p := range parts {
		var l [2]byte
		binary.BigEndian.PutUint16(l[:], uint16(len(p)))
		buf.Write(l[:])
	}
	for _, p := range parts {
		buf.Write(p)
	}
	return buf.Bytes()
}

// SplitCompound decodes the body of a compound message (after the type byte).
func SplitCompound(b []byte) (parts [][]byte, trunc int, err error) {
	if len(b) < 1 {
		return nil, 0, errors.New("missing compound length byte")
	}
	n := int(b[0])
	b = b[1:]
	if len(b) < 2*n {
		return nil, 0, errors.New("truncated len slice")
	}
	lens := make([]int, n)
	for i := 0; i < n; i++ {
		lens[i] = int(binary.BigEndian.Uint16(b[2*i:]))
	}
	b = b[2*n:]
	for i, l := range lens {
		if len(b) < l {
			return parts, n - i, nil
		}
		parts = append(parts, b[:l])
		b = b[l:]
	}
	if len(b) > 0 {
		// bytes behind the last declared part: a sender with more than 255 parts
		// wraps the count byte and the receiver silently loses the rest
		return parts, 0, &TrailingError{N: len(b)}
	}
	return parts, 0, nil
}

// TrailingError reports undeclared bytes behind the last part of a compound.
type TrailingError struct{ N int }

func (e *TrailingError) Error() string {
	return fmt.Sprintf("%d undeclared bytes behind the last compound part", e.N)
}

// CompressWrap wraps b in a compress message (LZW, LSB, width 8).
func CompressWrap(b []byte) []byte {
	var buf bytes.Buffer
	w := lzw.NewWriter(&buf, lzw.LSB, 8)
	_, _ = w.Write(b)
	_ = w.Close()
	return Encode(CompressMsg, &Compress{Algo: 0, Buf: buf.Bytes()})
}

// Decompress unwraps the body of a compress message (after the type byte).
func Decompress(body []byte) ([]byte, error) {
	var c Compress
	if err := mpDecode(body, &c); err != nil {
		return nil, err
	}
	if c.Algo != 0 {
		return nil, fmt.Errorf("unknown compression algorithm %d", c.Algo)
	}
	r := lzw.NewReader(bytes.NewReader(c.Buf), lzw.LSB, 8)
	defer r.Close()
	return io.ReadAll(io.LimitReader(r, 64<<20))
}

// CRCWrap prefixes b with [hasCrc][crc32-IEEE(b) big endian].
func CRCWrap(b []byte) []byte {
	out := make([]byte, 5, 5+len(b))
	out[0] = HasCrcMsg
	binary.BigEndian.PutUint32(out[1:], crc32.ChecksumIEEE(b))
	return append(out, b...)
}

// --- encryption envelope -----------------------------------------------------

// Seal builds [version][nonce 12][AES-GCM ciphertext || tag] with aad as
// associated data. Version 0 pads the plaintext with PKCS7 to the AES block
// size first, version 1 does not pad. The nonce is supplied by the caller
// (the harness derives it deterministically from the case).
func Seal(vsn byte, key, nonce, plain, aad []byte) []byte {
	blk, err := aes.NewCipher(key)
	if err != nil {
		panic(err)
	}
	gcm, err := cipher.NewGCM(blk)
	if err != nil {
		panic(err)
	}
	src := plain
	if vsn == 0 {
		pad := aes.BlockSize - len(plain)%aes.BlockSize
		src = append(append([]byte{}, plain...), bytes.Repeat([]byte{byte(pad)}, pad)...)
	}
	if len(nonce) != 12 {
		panic("nonce must be 12 bytes")
	}
	out := append([]byte{vsn}, nonce...)
	return gcm.Seal(out, nonce, src, aad)
}

// OpenRaw authenticates and decrypts an envelope under the given key and
// returns the raw GCM plaintext (padding, if any, still attached) and the
// version byte.
func OpenRaw(key, env, aad []byte) (plain []byte, vsn byte, err error) {
	if len(env) < 1+12+16 {
		return nil, 0, errors.New("envelope too short")
	}
	blk, err := aes.NewCipher(key)
	if err != nil {
		return nil, 0, err
	}
	gcm, err := cipher.NewGCM(blk)
	if err != nil {
		return nil, 0, err
	}
	p, err := gcm.Open(nil, env[1:13], env[13:], aad)
	if err != nil {
		return nil, 0, err
	}
	return p, env[0], nil
}

// Open authenticates under any of keys and strips version-0 padding strictly.
func Open(keys [][]byte, env, aad []byte) ([]byte, error) {
	if len(env) == 0 {
		return nil, errors.New("empty")
	}
	if env[0] > 1 {
		return nil, fmt.Errorf("unsupported encryption version %d", env[0])
	}
	for _, k := range keys {
		p, vsn, err := OpenRaw(k, env, aad)
		if err != nil {
			continue
		}
		if vsn == 0 {
			if len(p) == 0 {
				return nil, errors.New("empty padded plaintext")
			}
			pad := int(p[len(p)-1])
			if pad < 1 || pad > aes.BlockSize || pad > len(p) {
				return nil, errors.New("bad padding")
			}
			for _, b := range p[len(p)-pad:] {
				if int(b) != pad {
					return nil, errors.New("bad padding")
				}
			}
			return p[:len(p)-pad], nil
		}
		return p, nil
	}
	return nil, errors.New("no key opens the envelope")
}

// --- label header --------------------------------------------------------------

// LabelWrap prefixes b with [244][len][label] when label is not empty.
func LabelWrap(b []byte, label string) []byte {
	if label == "" {
		return b
	}
	out := append([]byte{HasLabelMsg, byte(len(label))}, label...)
	return append(out, b...)
}

// LabelSplit removes a label header if present.
func LabelSplit(b []byte) (rest []byte, label string, err error) {
	if len(b) == 0 || b[0] != HasLabelMsg {
		return b, "", nil
	}
	if len(b) < 2 {
		return nil, "", errors.New("truncated label header")
	}
	n := int(b[1])
	if n < 1 {
		return nil, "", errors.New("empty label")
	}
	if len(b) < 2+n {
		return nil, "", errors.New("truncated label")
	}
	return b[2+n:], string(b[2 : 2+n]), nil
}

// --- stream framing --------------------------------------------------------------

// StreamSeal builds the encrypted stream frame
// [encryptMsg][len32][envelope] with associated data [encryptMsg][len32][label].
func StreamSeal(vsn byte, key, nonce, plain []byte, label string) []byte {
	n := 1 + 12 + len(plain) + 16
	if vsn == 0 {
		n += aes.BlockSize - len(plain)%aes.BlockSize
	}
	hdr := make([]byte, 5)
	hdr[0] = EncryptMsg
	binary.BigEndian.PutUint32(hdr[1:], uint32(n))
	aad := append(append([]byte{}, hdr...), label...)
	return append(hdr, Seal(vsn, key, nonce, plain, aad)...)
}

// StreamOpen parses one encrypted stream frame from the start of b and returns
// the plaintext and the number of bytes consumed.
func StreamOpen(keys [][]byte, b []byte, label string) (plain []byte, used int, err error) {
	if len(b) < 5 || b[0] != EncryptMsg {
		return nil, 0, errors.New("not an encrypted stream frame")
	}
	n := int(binary.BigEndian.Uint32(b[1:5]))
	if len(b) < 5+n {
		return nil, 0, fmt.Errorf("encrypted frame truncated: have %d of %d", len(b)-5, n)
	}
	aad := append(append([]byte{}, b[:5]...), label...)
	p, err := Open(keys, b[5:5+n], aad)
	return p, 5 + n, err
}

// PushPull builds the plaintext push/pull message
// [pushPull][header][node...][user state].
func PushPull(join bool, nodes []PushNodeState, userState []byte) []byte {
	return PushPullDeclared(PushPullHeader{Nodes: len(nodes), UserStateLen: len(userState), Join: join}, nodes, userState)
}

// PushPullDeclared lets the caller lie in the header.
func PushPullDeclared(h PushPullHeader, nodes []PushNodeState, userState []byte) []byte {
	var buf bytes.Buffer
	buf.WriteByte(PushPullMsg)
	buf.Write(mpEncode(&h))
	for i := range nodes {
		buf.Write(mpEncode(&nodes[i]))
	}
	buf.Write(userState)
	return buf.Bytes()
}

// UserStream builds the plaintext reliable user message [user][header][payload].
func UserStream(payload []byte) []byte {
	return UserStreamDeclared(len(payload), payload)
}

func UserStreamDeclared(declared int, payload []byte) []byte {
	var buf bytes.Buffer
	buf.WriteByte(UserMsg)
	buf.Write(mpEncode(&UserMsgHeader{UserMsgLen: declared}))
	buf.Write(payload)
	return buf.Bytes()
}

// --- full decoders -------------------------------------------------------------

// Leaf is one innermost message of a packet.
type Leaf struct {
	Type byte
	Body []byte // after the type byte
	Path string // e.g. "crc/compress/compound"
	V    any    // decoded mirror struct for known types (nil for user messages)
}

func (l Leaf) String() string {
	if l.V != nil {
		return fmt.Sprintf("%s%+v", TypeName(l.Type), l.V)
	}
	return fmt.Sprintf("%s[%d bytes]", TypeName(l.Type), len(l.Body))
}

// Codec describes the configuration a receiver would need.
type Codec struct {
	Label string
	Keys  [][]byte // empty: no encryption expected
}

// PacketInfo is the result of decoding one packet.
type PacketInfo struct {
	Label     string
	Encrypted bool
	EncVsn    byte
	CRC       bool
	Leaves    []Leaf
	Trunc     int    // truncated compound parts
	Plain     []byte // payload after label/decrypt/crc
}

// DecodePacket fully unwraps a packet: label, (when keys are given) the
// encryption envelope, the optional CRC header, then compound/compress
// recursively down to leaf messages, each decoded into its mirror struct.
// Any malformation is an error: a real sender must only emit well-formed
// packets.
func (c Codec) DecodePacket(b []byte) (*PacketInfo, error) {
	info := &PacketInfo{}
	rest, label, err := LabelSplit(b)
	if err != nil {
		return nil, err
	}
	info.Label = label
	if len(c.Keys) > 0 {
		p, err := Open(c.Keys, rest, []byte(label))
		if err != nil {
			return info, fmt.Errorf("packet does not open under the keys: %w", err)
		}
		info.Encrypted = true
		info.EncVsn = rest[0]
		rest = p
	}
	if len(rest) >= 5 && rest[0] == HasCrcMsg {
		if crc32.ChecksumIEEE(rest[5:]) != binary.BigEndian.Uint32(rest[1:5]) {
			return info, errors.New("bad crc")
		}
		info.CRC = true
		rest = rest[5:]
	}
	info.Plain = rest
	if err := walk(rest, "", 0, info); err != nil {
		return info, err
	}
	return info, nil
}

func walk(b []byte, path string, depth int, info *PacketInfo) error {
	if depth > 8 {
		return errors.New("nesting too deep")
	}
	if len(b) < 1 {
		return errors.New("missing message type byte")
	}
	t, body := b[0], b[1:]
	switch t {
	case CompoundMsg:
		parts, trunc, err := SplitCompound(body)
		if err != nil {
			return err
		}
		info.Trunc += trunc
		for _, p := range parts {
			if err := walk(p, path+"compound/", depth+1, info); err != nil {
				return err
			}
		}
		return nil
	case CompressMsg:
		d, err := Decompress(body)
		if err != nil {
			return err
		}
		return walk(d, path+"compress/", depth+1, info)
	}
	l := Leaf{Type: t, Body: body, Path: path}
	v, err := DecodeLeaf(t, body)
	if err != nil {
		return fmt.Errorf("%s%s: %w", path, TypeName(t), err)
	}
	l.V = v
	info.Leaves = append(info.Leaves, l)
	return nil
}

// DecodeLeaf decodes the body of a non-wrapper message type.
func DecodeLeaf(t byte, body []byte) (any, error) {
	var v any
	switch t {
	case PingMsg:
		v = &Ping{}
	case IndirectPingMsg:
		v = &IndirectPing{}
	case AckRespMsg:
		v = &Ack{}
	case NackRespMsg:
		v = &Nack{}
	case SuspectMsg:
		v = &Suspect{}
	case AliveMsg:
		v = &Alive{}
	case DeadMsg:
		v = &Dead{}
	case ErrMsg:
		v = &Err{}
	case UserMsg:
		return nil, nil
	default:
		return nil, fmt.Errorf("unexpected message type %d", t)
	}
	if err := mpDecode(body, v); err != nil {
		return nil, err
	}
	return v, nil
}

// StreamMsg is one decoded stream message.
type StreamMsg struct {
	Encrypted  bool
	Compressed bool
	Type       byte
	Header     *PushPullHeader
	Nodes      []PushNodeState
	UserState  []byte // push/pull user state or reliable user message payload
	V          any    // ping / ack / err
	Used       int    // bytes of the input consumed
}

// DecodeStream decodes one complete stream message (after any label header)
// from b. With keys configured the message must be an encrypted frame.
func (c Codec) DecodeStream(b []byte) (*StreamMsg, error) {
	m := &StreamMsg{}
	if len(b) == 0 {
		return nil, errors.New("empty stream")
	}
	plain := b
	m.Used = len(b)
	if len(c.Keys) > 0 {
		p, used, err := StreamOpen(c.Keys, b, c.Label)
		if err != nil {
			return nil, err
		}
		m.Encrypted = true
		m.Used = used
		plain = p
	} else if b[0] == EncryptMsg {
		return nil, errors.New("encrypted frame but no keys")
	}
	if len(plain) == 0 {
		return nil, errors.New("empty plaintext")
	}
	if plain[0] == CompressMsg {
		d, err := Decompress(plain[1:])
		if err != nil {
			return nil, err
		}
		m.Compressed = true
		plain = d
		if len(plain) == 0 {
			return nil, errors.New("empty decompressed message")
		}
	}
	m.Type = plain[0]
	body := plain[1:]
	hd := codec.MsgpackHandle{}
	dec := codec.NewDecoderBytes(body, &hd) // slice based: nothing is allocated for lengths the input cannot back
	switch m.Type {
	case PushPullMsg:
		var h PushPullHeader
		if err := dec.Decode(&h); err != nil {
			return nil, err
		}
		m.Header = &h
		if h.Nodes < 0 || h.Nodes > 1<<20 {
			return nil, fmt.Errorf("bad node count %d", h.Nodes)
		}
		for i := 0; i < h.Nodes; i++ {
			var n PushNodeState
			if err := dec.Decode(&n); err != nil {
				return nil, fmt.Errorf("node %d: %w", i, err)
			}
			m.Nodes = append(m.Nodes, n)
		}
		// what follows the node list is the user state
		rest := body[min(dec.NumBytesRead(), len(body)):]
		if h.UserStateLen != len(rest) {
			return nil, fmt.Errorf("declared user state length %d but %d bytes follow the node list", h.UserStateLen, len(rest))
		}
		m.UserState = rest
	case UserMsg:
		var h UserMsgHeader
		if err := dec.Decode(&h); err != nil {
			return nil, err
		}
		rest := body[min(dec.NumBytesRead(), len(body)):]
		if h.UserMsgLen != len(rest) {
			return nil, fmt.Errorf("declared user message length %d but %d bytes follow", h.UserMsgLen, len(rest))
		}
		m.UserState = rest
	case PingMsg, AckRespMsg, ErrMsg:
		v, err := DecodeLeaf(m.Type, body)
		if err != nil {
			return nil, err
		}
		m.V = v
	default:
		return nil, fmt.Errorf("unexpected stream message type %d", m.Type)
	}
	return m, nil
}

// FilterPacket decodes a packet, removes the leaves for which drop returns
// true and re-encodes what is left (flat: a single message or one compound,
// keeping the CRC header, the encryption envelope and the label). It returns
// nil when nothing is left, and the input itself when nothing was dropped.
func (c Codec) FilterPacket(b []byte, nonce []byte, drop func(Leaf) bool) []byte {
	info, err := c.DecodePacket(b)
	if err != nil {
		return b
	}
	var keep [][]byte
	dropped := false
	for _, l := range info.Leaves {
		if drop(l) {
			dropped = true
			continue
		}
		keep = append(keep, append([]byte{l.Type}, l.Body...))
	}
	if !dropped {
		return b
	}
	if len(keep) == 0 {
		return nil
	}
	var plain []byte
	if len(keep) == 1 {
		plain = keep[0]
	} else {
		plain = Compound(keep)
	}
	if info.CRC {
		plain = CRCWrap(plain)
	}
	if info.Encrypted {
		plain = Seal(info.EncVsn, c.Keys[0], nonce, plain, []byte(info.Label))
	}
	return LabelWrap(plain, info.Label)
}
