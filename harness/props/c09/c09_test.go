// C09 — join and push/pull are mutual, all-or-nothing, vetoable; hearsay never
// kills. The real node is exercised as the host of an exchange (a scripted
// peer dials in), as the joiner (a scripted peer answers), and against another
// real node for mutuality.
package c09

import (
	"fmt"
	"sort"
	"strings"
	"testing"
	"testing/synctest"
	"time"

	"github.com/hashicorp/memberlist"
	"pgregory.net/rapid"

	"verif/harness/cluster"
	"verif/harness/puppet"
	"verif/harness/simnet"
	"verif/harness/vfx"
	"verif/harness/wire"
)

func TestMain(m *testing.M) { vfx.Main(m) }

type Row struct {
	Name  string
	State int
	IncD  int     // incarnation = 3 + IncD
	Vsn   []uint8 `json:",omitempty"`
	Alt   bool    `json:",omitempty"` // different address than the node may hold
	Meta  int     `json:",omitempty"`
}

type Plan struct {
	Seed     uint64
	Role     string // host | joiner
	Label    string
	Encrypt  bool
	Compress bool
	Join     bool
	Merge    bool // merge delegate installed (vetoes rows whose name starts with "veto")
	AliveDel bool // alive delegate installed (filters names starting with "filt")
	Rows     []Row
	UserLen  int
	// failure injection on the direction towards the real node
	Fault   string // none | cut | wrongkey | wronglabel | plaintext | overcap-nodes | overcap-state
	CutPos  int    // per-mille of the message length
	CutAt   string // permille | userstate | userstate-1 | userstate+1 | rows (structural boundaries of a plain message)
	CutMode string // reset | eof | stall
	// a held member came back on another build before the exchange: it was first learnt with VsnOld (incarnation 2) and
	// re-announced itself with VsnNew (incarnation 3); the exchange is judged against what it speaks now
	UpgradeWho string  `json:",omitempty"` // "" | m1 | m2
	VsnOld     []uint8 `json:",omitempty"`
	VsnNew     []uint8 `json:",omitempty"`
}

var namePool = []string{"m1", "m2", "new1", "new2", "new3", "n0", "veto1", "filt1", "m1"}

func genVsn(t *rapid.T) []uint8 {
	switch rapid.IntRange(0, 9).Draw(t, "vk") {
	case 0:
		return nil
	case 1:
		return []uint8{1, 5}
	case 5:
		// a peer whose understood range excludes what the local nodes speak (or the other way round)
		return rapid.SampledFrom([][]uint8{{3, 5, 3, 0, 0, 0}, {1, 1, 1, 0, 0, 0}, {1, 5, 2, 1, 1, 1}, {1, 5, 2, 0, 0, 0}, {2, 2, 2, 0, 0, 0}, {3, 5, 5, 0, 0, 0}}).Draw(t, "vshape")
	case 2, 3, 4:
		b := func() uint8 { return uint8(rapid.SampledFrom([]int{0, 1, 2, 3, 5, 6, 255}).Draw(t, "vb")) }
		return []uint8{b(), b(), b(), uint8(rapid.SampledFrom([]int{0, 0, 1}).Draw(t, "d0")), uint8(rapid.SampledFrom([]int{0, 0, 1}).Draw(t, "d1")), uint8(rapid.SampledFrom([]int{0, 0, 1, 2}).Draw(t, "d2"))}
	}
	return []uint8{1, 5, uint8(rapid.SampledFrom([]int{1, 2, 3, 5}).Draw(t, "pc")), 0, 0, 0}
}

func genPlan(t *rapid.T) Plan {
	p := Plan{Seed: rapid.Uint64Range(1, 1<<40).Draw(t, "seed"), Role: rapid.SampledFrom([]string{"host", "host", "joiner"}).Draw(t, "role"),
		Label: rapid.SampledFrom([]string{"", "lbl"}).Draw(t, "label"), Encrypt: rapid.Bool().Draw(t, "enc"), Compress: rapid.Bool().Draw(t, "comp"),
		Join: rapid.Bool().Draw(t, "join"), Merge: rapid.Bool().Draw(t, "merge"), AliveDel: rapid.IntRange(0, 3).Draw(t, "alivedel") == 0}
	if p.Role == "joiner" {
		p.Join = true
	}
	n := rapid.OneOf(rapid.IntRange(0, 6), rapid.IntRange(0, 64)).Draw(t, "nrows")
	for i := 0; i < n; i++ {
		r := Row{Name: rapid.SampledFrom(namePool).Draw(t, "name"), State: rapid.SampledFrom([]int{0, 0, 0, 1, 2, 3}).Draw(t, "state"),
			IncD: rapid.SampledFrom([]int{-1, 0, 0, 1, 5}).Draw(t, "incd"), Vsn: genVsn(t), Alt: rapid.IntRange(0, 5).Draw(t, "alt") == 0, Meta: rapid.IntRange(0, 2).Draw(t, "meta")}
		if i >= 9 {
			r.Name = fmt.Sprintf("%s-%d", r.Name, i) // many distinct names in long lists
			if strings.HasPrefix(r.Name, "n0") {
				r.Name = "x" + r.Name
			}
		}
		p.Rows = append(p.Rows, r)
	}
	if rapid.IntRange(0, 2).Draw(t, "clean") == 0 {
		// a list every entry of which speaks what the receiver's members speak: the exchange should go through
		for i := range p.Rows {
			p.Rows[i].Vsn = []uint8{1, 5, uint8(rapid.SampledFrom([]int{2, 2, 3, 5}).Draw(t, "cpc")), 0, 0, 0}
		}
	}
	p.UserLen = rapid.SampledFrom([]int{0, 0, 7, 1000, 65536}).Draw(t, "userlen")
	p.UpgradeWho = rapid.SampledFrom([]string{"", "", "m1", "m2"}).Draw(t, "upgrade")
	if p.UpgradeWho != "" {
		p.VsnOld = rapid.SampledFrom([][]uint8{{1, 5, 2, 0, 0, 0}, {1, 5, 2, 0, 0, 0}, {3, 5, 3, 0, 0, 0}, {1, 5, 2, 0, 1, 1}}).Draw(t, "vsnold")
		p.VsnNew = rapid.SampledFrom([][]uint8{{3, 5, 3, 0, 0, 0}, {1, 3, 2, 0, 0, 0}, {1, 2, 2, 0, 0, 0}, {4, 5, 4, 0, 0, 0}, {1, 5, 2, 0, 1, 1}, {1, 5, 2, 1, 1, 1}, {1, 5, 5, 0, 0, 0}}).Draw(t, "vsnnew")
	}
	p.Fault = rapid.SampledFrom([]string{"none", "none", "none", "none", "cut", "cut", "cut", "wrongkey", "wronglabel", "plaintext", "overcap-nodes", "overcap-state"}).Draw(t, "fault")
	p.CutPos = rapid.SampledFrom([]int{0, 1, 2, 10, 500, 900, 990, 998, 999, rapid.IntRange(0, 999).Draw(t, "cutany")}).Draw(t, "cutpos")
	p.CutMode = rapid.SampledFrom([]string{"reset", "eof", "eof", "stall"}).Draw(t, "cutmode")
	p.CutAt = rapid.SampledFrom([]string{"permille", "permille", "userstate", "userstate", "userstate-1", "userstate+1", "rows"}).Draw(t, "cutat")
	if p.Fault == "cut" && p.CutAt != "permille" {
		// structural boundaries are only visible in a plain message
		p.Encrypt, p.Compress = false, false
		if p.UserLen == 0 {
			p.UserLen = 7
		}
	}
	return p
}

var theT *testing.T

func runPlan(pl Plan) (res vfx.Result) {
	synctest.Test(theT, func(t *testing.T) { res = run(pl) })
	return
}

var key = []byte("0123456789abcdef")
var otherKey = []byte("ffffffffffffffff")

func snapshot(p *puppet.Puppet) (string, error) {
	d, err := p.Dump()
	if err != nil {
		return "", err
	}
	var rows []string
	for _, r := range d {
		rows = append(rows, r.String())
	}
	sort.Strings(rows)
	return strings.Join(rows, " ") + " | members " + strings.Join(p.MemberNames(), ","), nil
}

func run(pl Plan) (res vfx.Result) {
	labels := map[string]bool{}
	done := func() vfx.Result {
		for l := range labels {
			res.Labels = append(res.Labels, l)
		}
		sort.Strings(res.Labels)
		return res
	}
	fail := func(f string, a ...any) vfx.Result { res.Err = fmt.Errorf(f, a...); return done() }
	conf := puppet.NodeConf{Name: "n0", IP: "10.0.0.1", Port: 7946, IndirectChecks: 1, Label: pl.Label, NoCompress: !pl.Compress, WithMerge: pl.Merge, WithAlive: pl.AliveDel,
		TCPTimeoutMs: 1000, SuspicionMult: 4, ProbeIntervalMs: 1000, ProbeTimeoutMs: 300, GossipIntervalMs: 100}
	if pl.Encrypt {
		conf.Keys = [][]byte{key}
	}
	p, err := puppet.New(pl.Seed, conf)
	if err != nil {
		return fail("create: %v", err)
	}
	defer func() { p.Shutdown(); time.Sleep(20 * time.Second) }()
	p.Rec.MergeVeto = func(peers []*memberlist.Node) error {
		for _, n := range peers {
			if strings.HasPrefix(n.Name, "veto") {
				return puppet.ErrVeto
			}
		}
		return nil
	}
	p.Rec.AliveFilter = func(n *memberlist.Node) error {
		if strings.HasPrefix(n.Name, "filt") {
			return fmt.Errorf("filtered")
		}
		return nil
	}
	vsnOK := []uint8{1, 5, 2, 0, 0, 0}
	m1 := p.AddPeer("m1", "10.0.0.11", 7946, vsnOK)
	m2 := p.AddPeer("m2", "10.0.0.12", 7946, vsnOK)
	host := p.AddPeer("hostpeer", "10.0.0.20", 7946, vsnOK)
	heldVsn := map[string][]uint8{"m1": vsnOK, "m2": vsnOK}
	firstVsn := map[string][]uint8{"m1": vsnOK, "m2": vsnOK}
	firstInc := map[string]uint32{"m1": 3, "m2": 3}
	if pl.UpgradeWho != "" {
		heldVsn[pl.UpgradeWho], firstVsn[pl.UpgradeWho], firstInc[pl.UpgradeWho] = pl.VsnNew, pl.VsnOld, 2
	}
	p.Inject(m1.Addr(), [][]byte{
		puppet.Claim{Kind: "alive", Node: "m1", Inc: firstInc["m1"], Addr: m1.IPBytes(), Port: 7946, Meta: []byte("m1"), Vsn: firstVsn["m1"]}.Leaf(),
		puppet.Claim{Kind: "alive", Node: "m2", Inc: firstInc["m2"], Addr: m2.IPBytes(), Port: 7946, Meta: []byte("m2"), Vsn: firstVsn["m2"]}.Leaf(),
	}, puppet.Carrier{Kind: "compound"})
	time.Sleep(500 * time.Millisecond)
	if w := pl.UpgradeWho; w != "" {
		labels["upgraded-member"] = true
		pe := p.Peers[w]
		p.Inject(pe.Addr(), [][]byte{puppet.Claim{Kind: "alive", Node: w, Inc: 3, Addr: pe.IPBytes(), Port: 7946, Meta: []byte(w), Vsn: pl.VsnNew}.Leaf()}, puppet.Carrier{})
		time.Sleep(500 * time.Millisecond)
	}
	p.Settle()
	// ---- build the remote state list ----
	var rows []wire.PushNodeState
	addrOf := map[string][]byte{"m1": m1.IPBytes(), "m2": m2.IPBytes(), "n0": {10, 0, 0, 1}, "hostpeer": host.IPBytes()}
	for i, r := range pl.Rows {
		a, ok := addrOf[r.Name]
		if !ok {
			a = []byte{10, 0, 2, byte(i + 1)}
		}
		if r.Alt {
			a = []byte{10, 0, 3, byte(i + 1)}
		}
		inc := 3 + r.IncD
		if inc < 0 {
			inc = 0
		}
		rows = append(rows, wire.PushNodeState{Name: r.Name, Addr: a, Port: 7946, Meta: []byte(fmt.Sprintf("meta%d", r.Meta)), Incarnation: uint32(inc), State: r.State, Vsn: r.Vsn})
	}
	if pl.Role == "joiner" {
		// the host reports itself alive first, like a real one
		rows = append([]wire.PushNodeState{{Name: "hostpeer", Addr: host.IPBytes(), Port: 7946, Incarnation: 1, State: 0, Vsn: vsnOK}}, rows...)
	}
	user := make([]byte, pl.UserLen)
	for i := range user {
		user[i] = byte(i * 7)
	}
	plain := wire.PushPull(pl.Join, rows, user)
	switch pl.Fault {
	case "overcap-nodes":
		plain = wire.PushPullDeclared(wire.PushPullHeader{Nodes: 1<<20 + 1 + len(rows), UserStateLen: len(user), Join: pl.Join}, rows, user)
	case "overcap-state":
		plain = wire.PushPullDeclared(wire.PushPullHeader{Nodes: len(rows), UserStateLen: 20*1024*1024 + 1, Join: pl.Join}, rows, user)
	}
	sealKey, sealLabel, hdrLabel := key, pl.Label, pl.Label
	switch pl.Fault {
	case "wrongkey":
		sealKey = otherKey
	case "wronglabel":
		sealLabel, hdrLabel = pl.Label+"x", pl.Label+"x"
	}
	var keys [][]byte
	if pl.Encrypt && pl.Fault != "plaintext" {
		keys = [][]byte{sealKey}
	}
	// ---- certain rejection causes ----
	mustReject := ""
	switch pl.Fault {
	case "cut":
		mustReject = "stream cut"
	case "wrongkey":
		if pl.Encrypt {
			mustReject = "sealed under a foreign key"
		}
	case "wronglabel":
		// a reply carries no label header: for the joiner the label only matters as associated data
		if pl.Role == "host" || pl.Encrypt {
			mustReject = "wrong label"
		}
	case "plaintext":
		if pl.Encrypt {
			mustReject = "plaintext although encryption is required"
		}
	case "overcap-nodes", "overcap-state":
		mustReject = "declared size beyond the cap"
	}
	if mustReject == "" && pl.Join && pl.Merge {
		for _, r := range rows {
			if strings.HasPrefix(r.Name, "veto") {
				mustReject = "vetoed by the merge delegate"
			}
		}
	}
	if mustReject == "" {
		// version rule (only the certain implication): two alive nodes, full vectors, one's current outside the other's range
		type vv struct {
			name string
			v    []uint8
		}
		alive := []vv{{"n0", conf.Vsn()}, {"m1", heldVsn["m1"]}, {"m2", heldVsn["m2"]}}
		for _, r := range rows {
			if r.State == wire.StateAlive && len(r.Vsn) >= 6 {
				alive = append(alive, vv{r.Name, r.Vsn})
			}
		}
		for _, a := range alive {
			for _, b := range alive {
				if a.v[2] < b.v[0] || a.v[2] > b.v[1] || a.v[5] < b.v[3] || a.v[5] > b.v[4] {
					mustReject = fmt.Sprintf("incompatible versions: %s speaks %d/%d, %s understands [%d,%d]/[%d,%d]", a.name, a.v[2], a.v[5], b.name, b.v[0], b.v[1], b.v[3], b.v[4])
				}
			}
		}
	}
	before, err := snapshot(p)
	if err != nil {
		return fail("%v", err)
	}
	evIdx := p.Rec.Len()
	msg := p.StreamFrameWith(plain, pl.Compress, keys, 1, sealLabel, false)
	full := wire.LabelWrap(msg, hdrLabel)
	cutAt := -1
	if pl.Fault == "cut" {
		total := len(full)
		if pl.Role == "joiner" {
			total = len(msg)
		}
		cutAt = pl.CutPos * total / 1000
		switch pl.CutAt {
		case "userstate":
			cutAt = total - len(user) // exactly where the user state would begin
		case "userstate-1":
			cutAt = total - len(user) - 1
		case "userstate+1":
			cutAt = total - len(user) + 1
		case "rows":
			// right after the k-th row (k chosen by CutPos): re-encode the prefix to find the offset
			k := 0
			if len(rows) > 0 {
				k = pl.CutPos % (len(rows) + 1)
			}
			prefix := wire.PushPullDeclared(wire.PushPullHeader{Nodes: len(rows), UserStateLen: len(user), Join: pl.Join}, rows[:k], nil)
			cutAt = total - len(plain) + len(prefix)
		}
		if cutAt >= total {
			cutAt = total - 1
		}
		if cutAt < 0 {
			cutAt = 0
		}
	}
	var joinN int
	var joinErr error
	switch pl.Role {
	case "host":
		c, err := host.EP.Dial(p.Addr(), time.Second)
		if err != nil {
			return fail("dial: %v", err)
		}
		send := full
		if cutAt >= 0 {
			send = full[:cutAt]
		}
		_, _ = c.Write(send)
		switch {
		case cutAt < 0:
		case pl.CutMode == "reset":
			c.Reset()
		case pl.CutMode == "eof":
			c.CloseWrite()
		}
		_, _ = c.ReadAllFor(1500 * time.Millisecond)
		c.Close()
	case "joiner":
		host.OnConn = func(from string, c *simnet.Conn) {
			defer c.Close()
			_, _ = puppet.ReadMessage(c, p, time.Second)
			send := msg
			if cutAt >= 0 {
				send = msg[:cutAt]
			}
			_, _ = c.Write(send)
			switch {
			case cutAt < 0:
			case pl.CutMode == "reset":
				c.Reset()
				return
			case pl.CutMode == "stall":
				time.Sleep(1500 * time.Millisecond)
			}
		}
		joinN, joinErr = p.M.Join([]string{host.Addr()})
	}
	p.Settle()
	after, err := snapshot(p)
	if err != nil {
		return fail("%v", err)
	}
	evs := p.Rec.Since(evIdx)
	changed := before != after
	var effect []string
	for _, e := range evs {
		switch e.Kind {
		case "join", "leave", "update", "merge-remote", "conflict":
			effect = append(effect, e.String())
		}
	}
	labels["role:"+pl.Role] = true
	labels["fault:"+pl.Fault] = true
	if mustReject != "" {
		res.NonTrivial = (pl.Fault == "cut" && cutAt > 0) || len(rows) > 0
		labels["rejected:"+strings.SplitN(mustReject, ":", 2)[0]] = true
		if changed || len(effect) > 0 {
			return fail("%s exchange (%s; %d rows, join=%v, cut at %d/%d %s) must change nothing on the receiving side, but:\n  before %s\n  after  %s\n  callbacks %v", pl.Role, mustReject, len(rows), pl.Join, cutAt, len(full), pl.CutMode, before, after, effect)
		}
		if pl.Role == "joiner" && (joinErr == nil || joinN != 0) {
			return fail("Join reported %d successes, err %v although the exchange was rejected (%s)", joinN, joinErr, mustReject)
		}
		return done()
	}
	// accepted (not asserted) - but hearsay must never kill and, for the joiner, a reported success obliges
	if pl.Role == "joiner" && joinErr == nil {
		labels["join-ok"] = true
		mem := map[string]bool{}
		for _, n := range p.MemberNames() {
			mem[n] = true
		}
		if !mem["hostpeer"] {
			return fail("Join reported success but the joiner does not list the host: %v", p.MemberNames())
		}
		// every alive entry that passes the joiner's own filters is listed at return
		seen := map[string]bool{}
		for _, r := range rows {
			if r.State != wire.StateAlive || seen[r.Name] {
				continue
			}
			seen[r.Name] = true
			if r.Name == "n0" || strings.HasPrefix(r.Name, "filt") && pl.AliveDel {
				continue
			}
			if len(r.Vsn) >= 3 && (r.Vsn[0] == 0 || r.Vsn[1] == 0 || r.Vsn[0] > r.Vsn[1]) {
				continue
			}
			if pl.AliveDel && len(r.Vsn) < 6 {
				continue
			}
			if !mem[r.Name] {
				// an address conflict with a held member is a legitimate filter
				if (r.Name == "m1" || r.Name == "m2") && fmt.Sprint(r.Addr) != fmt.Sprint(addrOf[r.Name]) {
					continue
				}
				// a later dead/left row for the same name may have removed it again
				later := false
				for _, r2 := range rows {
					if r2.Name == r.Name && r2.State >= 2 {
						later = true
					}
				}
				if later {
					continue
				}
				return fail("Join reported success; the host reported %s alive (vsn %v) but the joiner does not list it: %v", r.Name, r.Vsn, p.MemberNames())
			}
		}
		res.NonTrivial = true
	}
	// hearsay: a dead/suspect row about a member held alive at that incarnation never removes it at once
	for _, name := range []string{"m1", "m2"} {
		accused := false
		for _, r := range rows {
			if r.Name == name && (r.State == wire.StateDead || r.State == wire.StateSuspect) {
				accused = true
			}
			if r.Name == name && (r.State == wire.StateLeft || (r.State == wire.StateAlive && r.Incarnation > 3)) {
				accused = false
				break
			}
		}
		if !accused || !changed {
			continue
		}
		labels["hearsay"] = true
		res.NonTrivial = true
		if !contains(p.MemberNames(), name) {
			return fail("a peer's claim that %s is dead removed it at once (members %v)", name, p.MemberNames())
		}
		for _, e := range evs {
			if e.Kind == "leave" && e.Name == name {
				return fail("a peer's claim that %s is dead fired a leave event at once", name)
			}
		}
		// it must stay for at least the minimum suspicion timeout (4 * max(1,log10 n) * 1 s), and a refutation keeps it
		time.Sleep(3900 * time.Millisecond)
		p.Settle()
		if !contains(p.MemberNames(), name) {
			return fail("hearsay about %s removed it before the minimum suspicion timeout", name)
		}
		pe := p.Peers[name]
		d, _ := p.Dump()
		if d[name].State == wire.StateSuspect {
			p.Inject(pe.Addr(), [][]byte{puppet.Claim{Kind: "alive", Node: name, Inc: d[name].Inc + 1, Addr: pe.IPBytes(), Port: 7946, Meta: []byte(name), Vsn: vsnOK}.Leaf()}, puppet.Carrier{})
			time.Sleep(30 * time.Second)
			if !contains(p.MemberNames(), name) {
				return fail("%s refuted the hearsay in time but was removed anyway", name)
			}
		}
		break
	}
	if changed {
		labels["merged"] = true
		// whatever was merged, the node's table must still be one that honest peers can exchange state with: a
		// peer speaking exactly the node's own versions is admitted by the next anti-entropy round (the held
		// members and the accepted rows passed the version rule above, so nothing legitimate stands in the way)
		cv := conf.Vsn()
		_, err := p.PushPullTo(p.Obs, false, []wire.PushNodeState{{Name: "canary", Addr: []byte{10, 0, 7, 7}, Port: 7946, Incarnation: 1, State: wire.StateAlive, Vsn: cv}}, nil, false)
		p.Settle()
		if !contains(p.MemberNames(), "canary") {
			d, _ := p.Dump()
			return fail("after the accepted exchange (%d rows) the node refuses an honest anti-entropy exchange with a peer speaking its own versions %v (reply error %v): its table no longer verifies\n  table %v\n  log tail %v", len(rows), cv, err, d, tailLog(p, 6))
		}
		labels["canary-admitted"] = true
	}
	return done()
}

func tailLog(p *puppet.Puppet, n int) []string {
	l := p.Log.Snapshot()
	if len(l) > n {
		l = l[len(l)-n:]
	}
	return l
}

func contains(s []string, x string) bool {
	for _, y := range s {
		if y == x {
			return true
		}
	}
	return false
}

func TestAllOrNothing(t *testing.T) {
	theT = t
	vfx.Check(t, genPlan, runPlan)
}

// ---- mutuality between two real nodes --------------------------------------------------

type MPlan struct {
	Seed      uint64
	Conf      cluster.Conf
	HostPeers int
	Freeze    bool
}

func runM(pl MPlan) (res vfx.Result) {
	synctest.Test(theT, func(t *testing.T) { res = runMIn(pl) })
	return
}

func runMIn(pl MPlan) (res vfx.Result) {
	fail := func(f string, a ...any) vfx.Result { res.Err = fmt.Errorf(f, a...); return res }
	c := cluster.New(pl.Seed)
	defer c.ShutdownAll()
	cf := pl.Conf
	cf.N = pl.HostPeers + 2
	hostN, err := c.Start(cf.NodeConf(0))
	if err != nil {
		return fail("start: %v", err)
	}
	var others []*cluster.Node
	for i := 0; i < pl.HostPeers; i++ {
		nd, err := c.Start(cf.NodeConf(i + 1))
		if err != nil {
			return fail("start: %v", err)
		}
		if _, err := nd.M.Join([]string{hostN.Addr()}); err != nil {
			return fail("formation: %v", err)
		}
		others = append(others, nd)
	}
	time.Sleep(2 * time.Second)
	joiner, err := c.Start(cf.NodeConf(pl.HostPeers + 1))
	if err != nil {
		return fail("start: %v", err)
	}
	hostView := hostN.MemberNames()
	n, jerr := joiner.M.Join([]string{hostN.Addr()})
	// freeze the network: no later message may be needed
	for _, a := range c.Nodes {
		for _, b := range c.Nodes {
			c.Net.Block(a.Addr(), b.Addr(), true)
		}
	}
	if jerr != nil || n != 1 {
		return fail("Join to a running host failed: %d %v", n, jerr)
	}
	got := joiner.MemberNames()
	for _, name := range hostView {
		if !contains(got, name) {
			return fail("Join returned success; the host listed %v, the joiner lists %v (missing %s)", hostView, got, name)
		}
	}
	c.Wait()
	if !contains(hostN.MemberNames(), joiner.Name()) {
		return fail("after its handler finished (network frozen) the host does not list the joiner: %v", hostN.MemberNames())
	}
	res.NonTrivial = true
	res.Labels = []string{fmt.Sprintf("hostpeers=%d", pl.HostPeers)}
	return res
}

func TestMutualJoin(t *testing.T) {
	theT = t
	vfx.Check(t, func(t *rapid.T) MPlan {
		return MPlan{Seed: rapid.Uint64Range(1, 1<<30).Draw(t, "seed"), Conf: cluster.GenConf(t, 2, 2), HostPeers: rapid.IntRange(0, 4).Draw(t, "hp")}
	}, runM)
}
