// C06 — suspicion timeout respects the Lifeguard bounds and confirmation rules.
// One real node with m healthy scripted peers; the suspicion of a subject starts
// either from an injected accusation (exact start instant) or from the node's
// own failed probe; a timed script of confirmations, refutations,
// re-suspicions and foreign death claims follows. The observed instant at
// which the node drops the subject is compared with an exact-arithmetic model.
package c06

import (
	"fmt"
	"math"
	"sort"
	"sync"
	"testing"
	"testing/synctest"
	"time"

	"pgregory.net/rapid"

	"verif/harness/puppet"
	"verif/harness/simnet"
	"verif/harness/vfx"
	"verif/harness/wire"
)

func TestMain(m *testing.M) { vfx.Main(m) }

type Act struct {
	AtMs int    // offset from the start of the (first) suspicion
	Kind string // confirm | refute | resuspect | dead | leave | rejoin
	From int    // confirm/resuspect/dead: peer index; -1 original accuser; -2 local node; -3 the subject; -4 unknown name
	Old  bool   `json:",omitempty"` // confirm / dead / leave at an older incarnation (must be ignored)
	// Newer: a confirmation that names a NEWER incarnation of the subject than the node holds (the confirmer has seen a
	// refutation the node has not). It is a confirmation like any other; whichever incarnation the node goes on to record,
	// the suspicion must still run out on schedule. Only generated as the last act (what later acts mean would depend on
	// the incarnation the implementation chose to keep).
	Newer bool `json:",omitempty"`
}

type Plan struct {
	Seed       uint64
	Mult       int
	MaxMult    int
	IntervalMs int
	Peers      int
	Own        bool // own-evidence mode
	PreHealth  int  `json:",omitempty"` // accusations about the node itself delivered just before the suspicion starts: it refutes each, so its health score is that much above zero (the timeouts must not depend on it)
	Script     []Act
}

// ---- model --------------------------------------------------------------------

type model struct {
	k        int
	min, max time.Duration
}

func newModel(mult, maxMult, n int, interval time.Duration) model {
	k := mult - 2
	if n-2 < k {
		k = 0
	}
	if k < 0 {
		k = 0
	}
	scale := math.Max(1, math.Log10(math.Max(1, float64(n))))
	min := time.Duration(mult) * time.Duration(scale*1000) * interval / 1000
	return model{k: k, min: min, max: time.Duration(maxMult) * min}
}

// timeout after c distinct eligible confirmations.
func (m model) timeout(c int) time.Duration {
	if m.k < 1 {
		return m.min
	}
	if c == 0 {
		return m.max // the initial timer is armed with max itself; only a confirmation re-computes (and floors to a millisecond)
	}
	frac := math.Log(float64(c)+1) / math.Log(float64(m.k)+1)
	raw := m.max.Seconds() - frac*(m.max.Seconds()-m.min.Seconds())
	t := time.Duration(math.Floor(1000*raw)) * time.Millisecond
	if t < m.min {
		t = m.min
	}
	return t
}

func genPlan(t *rapid.T) Plan {
	p := Plan{Seed: rapid.Uint64Range(1, 1<<40).Draw(t, "seed")}
	p.Mult = rapid.IntRange(1, 8).Draw(t, "mult")
	p.MaxMult = rapid.IntRange(1, 8).Draw(t, "maxmult")
	p.IntervalMs = rapid.SampledFrom([]int{200, 1000}).Draw(t, "interval")
	maxPeers := 12
	if vfx.Thorough() {
		maxPeers = 38
	}
	p.Peers = rapid.OneOf(rapid.IntRange(0, 8), rapid.IntRange(0, maxPeers)).Draw(t, "peers")
	p.Own = rapid.IntRange(0, 3).Draw(t, "own") == 0
	p.PreHealth = rapid.SampledFrom([]int{0, 0, 1, 2, 5}).Draw(t, "prehealth")
	m := newModel(p.Mult, p.MaxMult, p.Peers+2, time.Duration(p.IntervalMs)*time.Millisecond)
	// anchors: every analytic deadline
	var anchors []int
	for c := 0; c <= m.k; c++ {
		anchors = append(anchors, int(m.timeout(c)/time.Millisecond))
	}
	anchors = append(anchors, int(m.min/time.Millisecond), int(m.max/time.Millisecond))
	na := rapid.IntRange(0, 8).Draw(t, "nacts")
	last := 0
	for i := 0; i < na; i++ {
		a := Act{}
		a.Kind = rapid.SampledFrom([]string{"confirm", "confirm", "confirm", "confirm", "confirm", "refute", "resuspect", "resuspect", "dead", "leave", "rejoin", "rejoin"}).Draw(t, "kind")
		var at int
		switch rapid.IntRange(0, 3).Draw(t, "how") {
		case 0:
			at = rapid.IntRange(1, int(m.max/time.Millisecond)+2000).Draw(t, "at")
		default:
			at = rapid.SampledFrom(anchors).Draw(t, "anchor") + rapid.SampledFrom([]int{-2, 2, -50, 50, -1, 1}).Draw(t, "delta")
		}
		if at <= last {
			at = last + rapid.IntRange(1, 20).Draw(t, "bump")
		}
		last = at
		a.AtMs = at
		a.From = rapid.OneOf(rapid.IntRange(0, 7), rapid.IntRange(-4, 7)).Draw(t, "from")
		if a.Kind == "confirm" {
			a.Old = rapid.IntRange(0, 7).Draw(t, "old") == 0
		}
		if a.Kind == "dead" || a.Kind == "leave" {
			// a stale death / leave notice (older incarnation than the node holds) must be ignored altogether
			a.Old = rapid.IntRange(0, 2).Draw(t, "oldd") == 0
		}
		p.Script = append(p.Script, a)
	}
	if n := len(p.Script); n > 0 && p.Script[n-1].Kind == "confirm" && !p.Script[n-1].Old {
		p.Script[n-1].Newer = rapid.Bool().Draw(t, "newer")
	}
	return p
}

// ---- execution ----------------------------------------------------------------

var theT *testing.T

func runPlan(pl Plan) (res vfx.Result) {
	synctest.Test(theT, func(t *testing.T) { res = run(pl) })
	return
}

func fromName(f int) string {
	switch {
	case f >= 0:
		return fmt.Sprintf("p%d", f)
	case f == -1:
		return "acc"
	case f == -2:
		return "n0"
	case f == -3:
		return "x"
	}
	return "nobody"
}

func run(pl Plan) (res vfx.Result) {
	labels := map[string]bool{}
	var hist []string
	logf := func(f string, a ...any) { hist = append(hist, fmt.Sprintf(f, a...)) }
	done := func() vfx.Result {
		res.History = hist
		for l := range labels {
			res.Labels = append(res.Labels, l)
		}
		sort.Strings(res.Labels)
		return res
	}
	fail := func(f string, a ...any) vfx.Result { res.Err = fmt.Errorf(f, a...); return done() }
	interval := time.Duration(pl.IntervalMs) * time.Millisecond
	conf := puppet.NodeConf{Name: "n0", IP: "10.0.0.1", Port: 7946, SuspicionMult: pl.Mult, SuspicionMaxMult: pl.MaxMult,
		ProbeIntervalMs: pl.IntervalMs, ProbeTimeoutMs: pl.IntervalMs / 2, IndirectChecks: 0, DisableTcpPings: true, GossipToDeadMs: 3600000, ReclaimMs: 1}
	p, err := puppet.New(pl.Seed, conf)
	if err != nil {
		return fail("create: %v", err)
	}
	defer func() { p.Shutdown(); time.Sleep(time.Duration(8*pl.IntervalMs)*time.Millisecond + 20*time.Second) }()
	vsn := []uint8{1, 5, 2, 0, 0, 0}
	acc := p.AddPeer("acc", "10.0.1.1", 7946, vsn) // the original accuser in injected mode; not a member itself
	_ = acc
	var parts [][]byte
	for i := 0; i < pl.Peers; i++ {
		pe := p.AddPeer(fmt.Sprintf("p%d", i), fmt.Sprintf("10.0.2.%d", i+1), 7946, vsn)
		parts = append(parts, puppet.Claim{Kind: "alive", Node: pe.Name, Inc: 1, Addr: pe.IPBytes(), Port: 7946, Vsn: vsn}.Leaf())
	}
	x := p.AddPeer("x", "10.0.3.1", 7946, vsn)
	xalt := p.AddPeer("x-alt", "10.0.3.2", 7946, vsn) // where the name lives after a take-over
	xalt.Name = "x"
	parts = append(parts, puppet.Claim{Kind: "alive", Node: "x", Inc: 1, Addr: x.IPBytes(), Port: 7946, Vsn: vsn}.Leaf())
	src := "10.0.9.9:7946"
	for i := 0; i < len(parts); i += 20 {
		j := i + 20
		if j > len(parts) {
			j = len(parts)
		}
		p.Inject(src, parts[i:j], puppet.Carrier{Kind: "compound"})
	}
	if got := p.M.NumMembers(); got != pl.Peers+2 {
		return fail("setup: %d members, want %d", got, pl.Peers+2)
	}
	m := newModel(pl.Mult, pl.MaxMult, pl.Peers+2, interval)
	const lat = 200 * time.Microsecond
	var start time.Duration // absolute virtual time at which the suspicion begins
	accuser := "acc"
	accuseSelf := func() {
		if pl.PreHealth == 0 {
			return
		}
		for i := 0; i < pl.PreHealth; i++ {
			// each one is refuted (the node's incarnation rises past it), which costs one point of health
			p.Net.SendFrom(src, p.Addr(), p.Outer(puppet.Claim{Kind: "suspect", Node: "n0", Inc: uint32(1 + i), From: "acc"}.Leaf()))
			time.Sleep(300 * time.Microsecond)
		}
		labels[fmt.Sprintf("health-at-start:%d", p.M.GetHealthScore())] = true
	}
	if pl.Own {
		accuser = "n0"
		x.AckPings, x.AckTCP = false, false
		xalt.AckPings, xalt.AckTCP = false, false
		var mu sync.Mutex
		var tp time.Duration = -1
		p.Net.OnEvent = func(e simnet.Event) {
			if e.Kind == "pkt" && e.Src == p.Addr() && e.Dst == x.Addr() {
				info, err := p.Codec.DecodePacket(e.Data)
				if err != nil {
					return
				}
				for _, l := range info.Leaves {
					if pg, ok := l.V.(*wire.Ping); ok && pg.Node == "x" {
						mu.Lock()
						if tp < 0 {
							tp = e.T
						}
						mu.Unlock()
					}
				}
			}
		}
		for w := 0; w < (pl.Peers+3)*2; w++ {
			time.Sleep(interval)
			mu.Lock()
			got := tp
			mu.Unlock()
			if got >= 0 {
				break
			}
		}
		mu.Lock()
		got := tp
		mu.Unlock()
		p.Net.OnEvent = nil
		if got >= 0 && p.Net.Now() < got+interval-5*time.Millisecond {
			accuseSelf() // the probe of x is still running: the score is raised before its failure starts the suspicion
		}
		if got < 0 {
			return fail("own-evidence mode: the node never probed the subject")
		}
		start = got + interval
		if w := start - p.Net.Now(); w > 0 {
			time.Sleep(w)
		}
		// tick phase is arbitrary; shift by half a millisecond so that nothing we send ties with a deadline
		time.Sleep(500 * time.Microsecond)
		p.Settle()
		d, err := p.Dump()
		if err != nil {
			return fail("%v", err)
		}
		if d["x"].State != wire.StateSuspect {
			return fail("own-evidence mode: %v after the failed probe (probe sent %v, interval %v) the subject is %v, expected suspect", p.Net.Now(), got, interval, d["x"])
		}
	} else {
		time.Sleep(500 * time.Microsecond)
		accuseSelf()
		sendAt := p.Net.Now()
		p.Net.SendFrom(src, p.Addr(), p.Outer(puppet.Claim{Kind: "suspect", Node: "x", Inc: 1, From: "acc"}.Leaf()))
		start = sendAt + lat
	}
	logf("suspicion starts at %v (k=%d min=%v max=%v n=%d accuser=%s)", start, m.k, m.min, m.max, pl.Peers+2, accuser)

	// ---- run the script against the node and the model in lock step ----
	curInc := uint32(1)
	suspStart := start // start of the current suspicion
	confirmed := map[string]bool{accuser: true}
	c := 0
	deadline := suspStart + m.timeout(0) // model: instant at which the timer fires
	suspected := true
	isDead := false
	type death struct {
		at    time.Duration
		cause string
		susp  time.Duration // start of the suspicion that caused a timer death
	}
	var expect []death
	var lastDeath time.Duration
	lastLeft := false
	die := func(at time.Duration, cause string) {
		expect = append(expect, death{at, cause, suspStart})
		suspected, isDead = false, true
		lastDeath, lastLeft = at, cause == "leave"
	}
	nConfirm := 0
	curAddr := x.IPBytes()
	for _, a := range pl.Script {
		at := start + time.Duration(a.AtMs)*time.Millisecond + 500*time.Microsecond // send instant
		if pl.Own {
			at = start + time.Duration(a.AtMs)*time.Millisecond + 300*time.Microsecond
		}
		if now := p.Net.Now(); at < now {
			at = now // the act is due already (the harness was busy observing): it is sent now
		}
		arr := at + lat
		if suspected && arr == deadline {
			// acts and timeouts are whole milliseconds apart, so an act may be planned for the very instant at which
			// the timer of a LATER suspicion (which began when an earlier act arrived) expires; the order of two
			// events at one virtual instant is not defined, so the act is sent a little later
			at += 50 * time.Microsecond
			arr = at + lat
			labels["tie-with-deadline-avoided"] = true
		}
		if suspected && arr >= deadline {
			die(deadline, "timer")
		}
		if w := at - p.Net.Now(); w > 0 {
			time.Sleep(w)
		}
		from := fromName(a.From)
		countConfirm := func() {
			nConfirm++
			if c < m.k && !confirmed[from] {
				confirmed[from] = true
				c++
				nd := suspStart + m.timeout(c)
				if nd <= arr {
					die(arr, "confirmation drove the timer to zero")
				} else {
					deadline = nd
				}
				labels["counted-confirmation"] = true
			} else if confirmed[from] {
				labels["duplicate-or-accuser"] = true
			} else {
				labels["beyond-k"] = true
			}
		}
		newSuspicion := func() {
			suspected = true
			suspStart = arr
			confirmed = map[string]bool{from: true}
			c = 0
			deadline = suspStart + m.timeout(0)
			labels["resuspicion"] = true
		}
		switch a.Kind {
		case "confirm", "resuspect":
			inc := curInc
			if a.Kind == "confirm" && a.Old {
				if curInc == 0 {
					continue
				}
				inc = curInc - 1
			}
			newer := a.Kind == "confirm" && a.Newer && suspected && !isDead
			if newer {
				inc = curInc + 1
				labels["confirmation-at-newer-incarnation"] = true
			}
			p.Net.SendFrom(src, p.Addr(), p.Outer(puppet.Claim{Kind: "suspect", Node: "x", Inc: inc, From: from}.Leaf()))
			switch {
			case newer:
				countConfirm()
			case isDead || inc != curInc:
				// a suspicion about a dead/left record, or at an older incarnation, is ignored
			case suspected:
				countConfirm()
			default:
				newSuspicion()
			}
			logf("+%dms %s from %s inc %d -> suspected=%v c=%d deadline +%v", a.AtMs, a.Kind, from, inc, suspected, c, deadline-start)
		case "refute":
			// alive at the next incarnation from the current address: refutes a suspicion, or brings a dead record back
			curInc++
			p.Net.SendFrom(x.Addr(), p.Addr(), p.Outer(puppet.Claim{Kind: "alive", Node: "x", Inc: curInc, Addr: curAddr, Port: 7946, Vsn: vsn}.Leaf()))
			if isDead {
				labels["rejoined-newer"] = true
			} else {
				labels["refuted"] = true
			}
			suspected, isDead = false, false
			logf("+%dms alive inc %d", a.AtMs, curInc)
		case "rejoin":
			// the name is taken over from another address at the SAME incarnation (allowed after a leave, or
			// after a death once the 1 ms reclaim time has passed): a pending timer of the old life must not
			// act on the new one
			if !isDead {
				continue
			}
			if !lastLeft && arr-lastDeath < 2*time.Millisecond {
				continue // a failed (not departed) holder can only be replaced once the reclaim time (1 ms) has passed
			}
			if curAddr[3] == 1 {
				curAddr = []byte{10, 0, 3, 2}
			} else {
				curAddr = []byte{10, 0, 3, 1}
			}
			p.Net.SendFrom(src, p.Addr(), p.Outer(puppet.Claim{Kind: "alive", Node: "x", Inc: curInc, Addr: curAddr, Port: 7946, Vsn: vsn}.Leaf()))
			suspected, isDead = false, false
			labels["rejoined-same-incarnation"] = true
			logf("+%dms rejoin from %v at the same incarnation %d", a.AtMs, curAddr, curInc)
		case "dead":
			if from == "x" {
				from = "acc"
			}
			if a.Old && curInc > 0 {
				p.Net.SendFrom(src, p.Addr(), p.Outer(puppet.Claim{Kind: "dead", Node: "x", Inc: curInc - 1, From: from}.Leaf()))
				labels["stale-death-notice"] = true
				logf("+%dms stale dead inc %d from %s (ignored)", a.AtMs, curInc-1, from)
				continue
			}
			p.Net.SendFrom(src, p.Addr(), p.Outer(puppet.Claim{Kind: "dead", Node: "x", Inc: curInc, From: from}.Leaf()))
			if !isDead {
				die(arr, "foreign death claim")
			}
		case "leave":
			if a.Old && curInc > 0 {
				p.Net.SendFrom(src, p.Addr(), p.Outer(puppet.Claim{Kind: "left", Node: "x", Inc: curInc - 1}.Leaf()))
				labels["stale-leave-notice"] = true
				logf("+%dms stale leave inc %d (ignored)", a.AtMs, curInc-1)
				continue
			}
			p.Net.SendFrom(src, p.Addr(), p.Outer(puppet.Claim{Kind: "left", Node: "x", Inc: curInc}.Leaf()))
			if !isDead {
				die(arr, "leave")
			}
		}
	}
	if suspected {
		die(deadline, "timer")
	}
	// run past the last possible instant
	end := start + m.max
	for _, d := range expect {
		if d.at > end {
			end = d.at
		}
	}
	for _, a := range pl.Script {
		if t := start + time.Duration(a.AtMs)*time.Millisecond + m.max; t > end {
			end = t
		}
	}
	if w := end + 50*time.Millisecond - p.Net.Now(); w > 0 {
		time.Sleep(w)
	}
	p.Settle()
	// in own-evidence mode the subject keeps failing probes; once it is alive again (refuted, rejoined) the
	// node suspects it again by itself, which the script model does not follow: such plans are not checked
	if pl.Own && (labels["refuted"] || labels["rejoined-newer"] || labels["rejoined-same-incarnation"]) {
		labels["own-evidence-alive-again-unchecked"] = true
		return done()
	}
	var leaves []time.Duration
	for _, e := range p.Rec.Events() {
		if e.Name == "x" && e.Kind == "leave" {
			leaves = append(leaves, e.T)
		}
	}
	labels[fmt.Sprintf("k=%d", m.k)] = true
	if pl.Own {
		labels["own-evidence"] = true
	} else {
		labels["injected"] = true
	}
	if len(expect) == 0 {
		labels["outcome:survives"] = true
	}
	if len(leaves) != len(expect) {
		return fail("the node dropped the subject %d time(s) at %v (relative to the start %v), the model expects %d: %+v; k=%d min=%v max=%v n=%d\n%v", len(leaves), rel(leaves, start), start, len(expect), relD(expect, start), m.k, m.min, m.max, pl.Peers+2, hist)
	}
	if isDead == contains(p.MemberNames(), "x") {
		return fail("at the end the model says dead=%v, Members() = %v", isDead, p.MemberNames())
	}
	for i, d := range expect {
		labels["outcome:"+d.cause] = true
		diff := leaves[i] - d.at
		if diff < -time.Millisecond || diff > time.Millisecond {
			return fail("drop #%d: the node dropped the subject at +%v, the model says +%v (%s); k=%d min=%v max=%v n=%d\n%v", i, leaves[i]-start, d.at-start, d.cause, m.k, m.min, m.max, pl.Peers+2, hist)
		}
		if d.cause == "timer" || d.cause == "confirmation drove the timer to zero" {
			// hard bounds, independent of the schedule model (relative to the suspicion that killed it)
			if leaves[i] < d.susp+m.min-time.Millisecond {
				return fail("dropped %v after the suspicion began, before the minimum suspicion timeout %v\n%v", leaves[i]-d.susp, m.min, hist)
			}
			if leaves[i] > d.susp+m.max+time.Millisecond {
				return fail("dropped %v after the suspicion began, later than the maximum suspicion timeout %v", leaves[i]-d.susp, m.max)
			}
		}
	}
	res.NonTrivial = nConfirm > 0
	res.Sub = map[string]int64{"confirmations": int64(nConfirm)}
	return done()
}

func rel(ts []time.Duration, start time.Duration) []time.Duration {
	var o []time.Duration
	for _, t := range ts {
		o = append(o, t-start)
	}
	return o
}

func relD[T any](ds []T, start time.Duration) string {
	return fmt.Sprintf("%+v (absolute; start %v)", ds, start)
}

func contains(s []string, x string) bool {
	for _, y := range s {
		if y == x {
			return true
		}
	}
	return false
}

func TestSuspicionSchedule(t *testing.T) {
	theT = t
	vfx.Check(t, genPlan, runPlan)
}
