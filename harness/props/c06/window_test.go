package c06

import (
	"fmt"
	"strings"
	"sync"
	"sync/atomic"
	"testing"
	"time"

	"pgregory.net/rapid"

	"verif/harness/puppet"
	"verif/harness/vfx"
)

// A refutation that is accepted while the suspicion's expiry is being carried out. Between deciding that a suspicion
// has run out and recording the death, a node does other things (counting, logging); the log destination is the
// user's and may be slow. Wall-clock test (a bubble cannot wait while another goroutine may be holding a lock): the
// log writer, on the line that announces the expiry, delivers alive{subject, incarnation+1, other metadata} and waits
// (at most 150 ms) until the node has delivered the update event for it, i.e. has accepted the refutation. If it was
// accepted inside that window, "unless it first accepts a refutation (the peer stays)" applies: the subject must stay
// listed and no leave event may follow. An implementation that logs under its lock simply does not accept the claim
// inside the window; nothing is asserted then.

type WPlan struct {
	Seed       uint64
	IntervalMs int
	Mult       int
	Peers      int
	Inc        uint32
	Confirms   int
}

func genWPlan(t *rapid.T) WPlan {
	return WPlan{Seed: rapid.Uint64Range(1, 1<<40).Draw(t, "seed"), IntervalMs: rapid.SampledFrom([]int{60, 80}).Draw(t, "interval"),
		Mult: rapid.IntRange(2, 3).Draw(t, "mult"), Peers: rapid.IntRange(0, 4).Draw(t, "peers"), Inc: uint32(rapid.SampledFrom([]int{1, 2, 9}).Draw(t, "inc")),
		Confirms: rapid.IntRange(0, 2).Draw(t, "confirms")}
}

func runW(pl WPlan) (res vfx.Result) {
	fail := func(f string, a ...any) vfx.Result { res.Err = fmt.Errorf(f, a...); return res }
	interval := time.Duration(pl.IntervalMs) * time.Millisecond
	conf := puppet.NodeConf{Name: "n0", IP: "10.0.0.1", Port: 7946, SuspicionMult: pl.Mult, SuspicionMaxMult: 2, ProbeIntervalMs: pl.IntervalMs,
		ProbeTimeoutMs: pl.IntervalMs / 2, IndirectChecks: 0, DisableTcpPings: true, GossipToDeadMs: 3600000, GossipIntervalMs: -1}
	p, err := puppet.New(pl.Seed, conf)
	if err != nil {
		return fail("create: %v", err)
	}
	defer p.Shutdown()
	vsn := []uint8{1, 5, 2, 0, 0, 0}
	src := "10.0.9.9:7946"
	send := func(leaves ...[]byte) {
		for _, l := range leaves {
			p.Net.SendFrom(src, p.Addr(), p.Outer(l))
		}
	}
	for i := 0; i < pl.Peers; i++ {
		pe := p.AddPeer(fmt.Sprintf("p%d", i), fmt.Sprintf("10.0.2.%d", i+1), 7946, vsn)
		send(puppet.Claim{Kind: "alive", Node: pe.Name, Inc: 1, Addr: pe.IPBytes(), Port: 7946, Vsn: vsn}.Leaf())
	}
	x := p.AddPeer("x", "10.0.3.1", 7946, vsn)
	send(puppet.Claim{Kind: "alive", Node: "x", Inc: pl.Inc, Addr: x.IPBytes(), Port: 7946, Meta: []byte("first"), Vsn: vsn}.Leaf())
	waitFor := func(d time.Duration, cond func() bool) bool {
		end := time.Now().Add(d)
		for time.Now().Before(end) {
			if cond() {
				return true
			}
			time.Sleep(time.Millisecond)
		}
		return cond()
	}
	listed := func() bool {
		for _, n := range p.M.Members() {
			if n.Name == "x" {
				return true
			}
		}
		return false
	}
	if !waitFor(10*time.Second, func() bool { return p.M.NumMembers() == pl.Peers+2 }) {
		return fail("setup: %d members, want %d", p.M.NumMembers(), pl.Peers+2)
	}
	updated := func(from int) bool {
		for _, e := range p.Rec.Since(from) {
			if e.Kind == "update" && e.Name == "x" && string(e.Meta) == "refuted" {
				return true
			}
		}
		return false
	}
	var once sync.Once
	var inWindow, hookRan atomic.Bool
	evIdx := p.Rec.Len()
	p.Log.SetOnLine(func(line string) {
		if !strings.Contains(line, "timeout reached") || !strings.Contains(line, "x") {
			return
		}
		once.Do(func() {
			hookRan.Store(true)
			send(puppet.Claim{Kind: "alive", Node: "x", Inc: pl.Inc + 1, Addr: x.IPBytes(), Port: 7946, Meta: []byte("refuted"), Vsn: vsn}.Leaf())
			if waitFor(150*time.Millisecond, func() bool { return updated(evIdx) }) {
				inWindow.Store(true)
			}
		})
	})
	send(puppet.Claim{Kind: "suspect", Node: "x", Inc: pl.Inc, From: "acc"}.Leaf())
	for c := 0; c < pl.Confirms && c < pl.Peers; c++ {
		send(puppet.Claim{Kind: "suspect", Node: "x", Inc: pl.Inc, From: fmt.Sprintf("p%d", c)}.Leaf())
	}
	maxTimeout := 2 * time.Duration(pl.Mult) * interval
	// the expiry, the hook and whatever follows
	waitFor(maxTimeout+20*time.Second, func() bool { return hookRan.Load() || !listed() })
	time.Sleep(150 * time.Millisecond)
	p.Log.SetOnLine(nil)
	if !hookRan.Load() {
		res.Labels = append(res.Labels, "expiry-line-not-seen")
		return
	}
	if !inWindow.Load() {
		res.Labels = append(res.Labels, "refutation-not-accepted-inside-the-window")
		return
	}
	res.NonTrivial = true
	res.Labels = append(res.Labels, "refutation-accepted-inside-the-expiry")
	// The node probes x itself all the while, and on a loaded machine an acknowledgement may be late: a NEW suspicion
	// may legitimately remove x later on, but not sooner than the minimum suspicion timeout (>= 120 ms here) after the
	// refutation. A removal within 100 ms of the accepted refutation can only be the old suspicion's.
	var after []string
	var accepted time.Duration
	seen := false
	for _, e := range p.Rec.Since(evIdx) {
		if e.Name != "x" {
			continue
		}
		if e.Kind == "update" && string(e.Meta) == "refuted" && !seen {
			seen, accepted = true, e.T
			continue
		}
		if seen && e.Kind == "leave" && e.T < accepted+100*time.Millisecond {
			after = append(after, fmt.Sprintf("leave %v after the refutation was accepted", (e.T-accepted).Round(10*time.Microsecond)))
		}
	}
	if len(after) > 0 {
		return fail("x (suspected at incarnation %d) refuted with incarnation %d while the expiry of the suspicion was being carried out; the node accepted the refutation (update event delivered) and then still removed it (minimum suspicion timeout %v): %v",
			pl.Inc, pl.Inc+1, time.Duration(pl.Mult)*interval, after)
	}
	return
}

func TestRefutationInsideExpiry(t *testing.T) {
	vfx.Check(t, genWPlan, runW)
}
