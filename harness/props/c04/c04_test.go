// C04 — no false suspicion in a healthy cluster. N real nodes, every packet
// delivered within (0, ProbeTimeout/2), no loss; joins, UpdateNode, graceful
// leaves and user broadcasts interleaved at generated instants.
package c04

import (
	"fmt"
	"sort"
	"sync"
	"testing"
	"testing/synctest"
	"time"

	"pgregory.net/rapid"

	"verif/harness/cluster"
	"verif/harness/vfx"
	"verif/harness/wire"
)

func TestMain(m *testing.M) { vfx.Main(m) }

type Op struct {
	AtMs int
	Kind string // update | leave | bcast | besteffort | reliable
	Node int
	Arg  int `json:",omitempty"`
}

type Plan struct {
	Seed      uint64
	Conf      cluster.Conf
	LatPct    int   // upper bound of packet latency as a percentage of ProbeTimeout/2 (exclusive)
	StartMs   []int // start instant of node i (node 0 at 0)
	JoinVia   []int // node i joins via this earlier node
	JoinLagMs []int // delay between start and join
	Ops       []Op
	DurMs     int
}

func genPlan(t *rapid.T) Plan {
	p := Plan{Seed: rapid.Uint64Range(1, 1<<40).Draw(t, "seed")}
	maxN := 8
	if vfx.Thorough() {
		maxN = 16
	}
	p.Conf = cluster.GenConf(t, 2, maxN)
	p.LatPct = rapid.SampledFrom([]int{5, 50, 99, 100}).Draw(t, "latpct")
	n := p.Conf.N
	p.StartMs = make([]int, n)
	p.JoinVia = make([]int, n)
	p.JoinLagMs = make([]int, n)
	late := 0
	for i := 1; i < n; i++ {
		p.StartMs[i] = rapid.SampledFrom([]int{0, 0, 10, 300, 1500, 7000, 12000}).Draw(t, "start")
		p.JoinVia[i] = rapid.IntRange(0, i-1).Draw(t, "via")
		p.JoinLagMs[i] = rapid.SampledFrom([]int{0, 1, 50, 700}).Draw(t, "lag")
		if p.StartMs[i] > late {
			late = p.StartMs[i]
		}
	}
	p.DurMs = late + rapid.SampledFrom([]int{15000, 30000, 60000}).Draw(t, "dur")
	p.Ops = rapid.SliceOfN(rapid.Custom(func(t *rapid.T) Op {
		return Op{AtMs: rapid.IntRange(0, p.DurMs-5000).Draw(t, "at"),
			Kind: rapid.SampledFrom([]string{"update", "update", "leave", "bcast", "bcast", "besteffort", "reliable"}).Draw(t, "kind"),
			Node: rapid.IntRange(0, n-1).Draw(t, "node"), Arg: rapid.SampledFrom([]int{0, 1, 40, 400, 1100}).Draw(t, "arg")}
	}), 0, 12).Draw(t, "ops")
	sort.SliceStable(p.Ops, func(i, j int) bool { return p.Ops[i].AtMs < p.Ops[j].AtMs })
	return p
}

var theT *testing.T

func runPlan(pl Plan) (res vfx.Result) {
	synctest.Test(theT, func(t *testing.T) { res = run(pl) })
	return
}

func run(pl Plan) (res vfx.Result) {
	labels := map[string]bool{}
	var hist []string
	var hmu sync.Mutex
	logf := func(f string, a ...any) {
		hmu.Lock()
		hist = append(hist, fmt.Sprintf(f, a...))
		hmu.Unlock()
	}
	done := func() vfx.Result {
		res.History = hist
		for l := range labels {
			res.Labels = append(res.Labels, l)
		}
		sort.Strings(res.Labels)
		return res
	}
	fail := func(f string, a ...any) vfx.Result { res.Err = fmt.Errorf(f, a...); return done() }

	c := cluster.New(pl.Seed)
	defer c.ShutdownAll()
	cf := pl.Conf
	half := cf.ProbeTimeoutMs * 1000 / 2 // microseconds
	maxLat := half*pl.LatPct/100 - 1
	if maxLat < 2 {
		maxLat = 2
	}
	c.SetFaults(cluster.Faults{MinLatUs: 1, MaxLatUs: maxLat, StreamLatUs: 100}, true)
	n := cf.N
	nodes := make([]*cluster.Node, n)
	var errMu sync.Mutex
	var firstErr error
	setErr := func(e error) {
		errMu.Lock()
		if firstErr == nil {
			firstErr = e
		}
		errMu.Unlock()
	}
	leaveCalled := make([]time.Duration, n) // 0 = not called (a call at t=0 is recorded as 1ns)
	joined := make([]bool, n)
	joined[0] = true
	leaveReturned := make([]bool, n)
	var lmu sync.Mutex
	var wg sync.WaitGroup
	stop := make(chan struct{})

	// health monitor
	wg.Add(1)
	go func() {
		defer wg.Done()
		period := time.Duration(cf.ProbeTimeoutMs) * time.Millisecond / 4
		for {
			select {
			case <-stop:
				return
			case <-time.After(period):
			}
			for _, nd := range nodes {
				if nd != nil && nd.Running {
					if hs := nd.M.GetHealthScore(); hs != 0 {
						setErr(fmt.Errorf("at %v node %s reports health score %d in a healthy cluster", c.Net.Now(), nd.Name(), hs))
					}
				}
			}
		}
	}()

	// node starters
	for i := 0; i < n; i++ {
		i := i
		wg.Add(1)
		go func() {
			defer wg.Done()
			time.Sleep(time.Duration(pl.StartMs[i]) * time.Millisecond)
			nd, err := c.Start(cf.NodeConf(i))
			if err != nil {
				setErr(fmt.Errorf("start n%d: %v", i, err))
				return
			}
			lmu.Lock()
			nodes[i] = nd
			lmu.Unlock()
			if i == 0 {
				return
			}
			time.Sleep(time.Duration(pl.JoinLagMs[i]) * time.Millisecond)
			// the contact must exist; wait for it if it starts later
			for tries := 0; ; tries++ {
				lmu.Lock()
				via := nodes[pl.JoinVia[i]]
				lmu.Unlock()
				if via != nil {
					_, err := nd.M.Join([]string{via.Addr()})
					lmu.Lock()
					joined[i] = true
					lmu.Unlock()
					logf("%v n%d Join via %s -> %v", c.Net.Now(), i, via.Name(), err)
					return
				}
				time.Sleep(100 * time.Millisecond)
				if tries > 300 {
					return
				}
			}
		}()
	}
	// Cluster.Start appends to c.Nodes concurrently: serialise through lmu by starting in order of time is
	// not needed because Start only touches c.Nodes under the bubble's cooperative scheduling; guard anyway.

	// operations
	opsOverlap := 0
	for _, op := range pl.Ops {
		op := op
		wg.Add(1)
		go func() {
			defer wg.Done()
			time.Sleep(time.Duration(op.AtMs) * time.Millisecond)
			lmu.Lock()
			nd := nodes[op.Node]
			lmu.Unlock()
			if nd == nil || !nd.Running {
				return
			}
			lmu.Lock()
			if leaveCalled[op.Node] != 0 || !joined[op.Node] {
				lmu.Unlock()
				return // a node that has left does nothing further; operations start once the node has joined
			}
			if op.Kind == "leave" {
				leaveCalled[op.Node] = c.Net.Now() + 1
			}
			lmu.Unlock()
			switch op.Kind {
			case "update":
				nd.Rec.SetMeta([]byte(fmt.Sprintf("meta-%d-%d-%d", op.Node, op.AtMs, op.Arg)))
				if err := nd.M.UpdateNode(10 * time.Second); err != nil {
					logf("%v n%d UpdateNode: %v", c.Net.Now(), op.Node, err)
				}
			case "leave":
				err := nd.M.Leave(10 * time.Second)
				lmu.Lock()
				leaveReturned[op.Node] = true
				nd.Left = true
				lmu.Unlock()
				logf("%v n%d Leave -> %v", c.Net.Now(), op.Node, err)
			case "bcast":
				b := make([]byte, op.Arg)
				nd.Rec.QueueUser(b)
			case "besteffort", "reliable":
				mem := nd.M.Members()
				if len(mem) < 2 {
					return
				}
				to := mem[(op.Arg+op.AtMs)%len(mem)]
				b := make([]byte, op.Arg)
				if op.Kind == "reliable" {
					_ = nd.M.SendReliable(to, b)
				} else {
					_ = nd.M.SendBestEffort(to, b)
				}
			}
			logf("%v n%d %s(%d)", c.Net.Now(), op.Node, op.Kind, op.Arg)
		}()
		if op.AtMs > 1000 {
			opsOverlap++
		}
	}

	time.Sleep(time.Duration(pl.DurMs) * time.Millisecond)
	close(stop)
	wg.Wait()
	c.Wait()

	errMu.Lock()
	fe := firstErr
	errMu.Unlock()
	if fe != nil {
		return fail("%v", fe)
	}

	// ---- oracles over the whole history ----
	cd := cf.NodeConf(0).Codec()
	tap, _, err := c.DecodeTap(0, cd)
	if err != nil {
		return fail("%v", err)
	}
	nameIdx := map[string]int{}
	for i := 0; i < n; i++ {
		nameIdx[fmt.Sprintf("n%d", i)] = i
	}
	reordered := false
	for _, m := range tap {
		switch v := m.Leaf.V.(type) {
		case *wire.Suspect:
			return fail("suspect message on the wire at %v: %s>%s %+v (healthy cluster, max latency %dus, probe timeout %dms)\nhistory:\n%v", m.T, m.Src, m.Dst, *v, maxLat, cf.ProbeTimeoutMs, hist)
		case *wire.Dead:
			if v.From != v.Node {
				return fail("dead message by a third party on the wire at %v: %s>%s %+v", m.T, m.Src, m.Dst, *v)
			}
			if i, ok := nameIdx[v.Node]; !ok || leaveCalled[i] == 0 || m.T < leaveCalled[i]-1 {
				return fail("leave message for %s at %v although it had not called Leave", v.Node, m.T)
			}
		}
	}
	// reordering present? (two packets on one link delivered in the opposite order of sending)
	{
		type key struct{ s, d string }
		last := map[key]time.Duration{}
		for _, e := range c.Net.Events() {
			if e.Kind != "pkt" {
				continue
			}
			k := key{e.Src, e.Dst}
			arr := e.T + e.Delay
			if l, ok := last[k]; ok && arr < l {
				reordered = true
			}
			if arr > last[k] {
				last[k] = arr
			}
		}
	}
	for i, nd := range nodes {
		if nd == nil {
			continue
		}
		for _, e := range nd.Rec.Events() {
			if e.Kind != "leave" {
				continue
			}
			j, ok := nameIdx[e.Name]
			if !ok {
				return fail("n%d delivered a leave event for unknown member %s", i, e.Name)
			}
			if leaveCalled[j] == 0 {
				return fail("n%d delivered NotifyLeave(%s) at %v but %s never called Leave (healthy cluster)\nhistory:\n%v", i, e.Name, e.T+nd.StartedAt, e.Name, hist)
			}
			if e.T+nd.StartedAt < leaveCalled[j]-1 {
				return fail("n%d delivered NotifyLeave(%s) at %v, before the Leave call at %v", i, e.Name, e.T+nd.StartedAt, leaveCalled[j])
			}
		}
		if err := cluster.CheckEventLog(nd.M, nd.Rec, nd.Name()); err != nil {
			return fail("event log: %v", err)
		}
		d, err := c.Dump(nd)
		if err != nil {
			return fail("dump n%d: %v", i, err)
		}
		for name, r := range d {
			if r.State == wire.StateSuspect || r.State == wire.StateDead {
				return fail("n%d holds %s as %s at the end of a healthy run: %v", i, name, wire.StateName(r.State), r)
			}
			if r.State == wire.StateLeft {
				if j, ok := nameIdx[name]; !ok || leaveCalled[j] == 0 {
					return fail("n%d holds %s as left although it never left", i, name)
				}
			}
		}
	}
	nLeave := 0
	for i := range leaveCalled {
		if leaveCalled[i] != 0 {
			nLeave++
		}
	}
	labels[fmt.Sprintf("n=%d", n)] = true
	labels[fmt.Sprintf("latpct=%d", pl.LatPct)] = true
	if nLeave > 0 {
		labels["with-leave"] = true
	}
	if len(cf.PVs) > 1 {
		labels["mixed-versions"] = true
	}
	if cf.Encrypt {
		labels["encrypted"] = true
	}
	res.NonTrivial = n >= 3 && opsOverlap > 0 && reordered
	res.Sub = map[string]int64{"packets": int64(len(tap)), "virtual_seconds": int64(pl.DurMs / 1000)}
	if reordered {
		labels["reordered"] = true
	}
	return done()
}

func TestHealthyCluster(t *testing.T) {
	theT = t
	vfx.Check(t, genPlan, runPlan)
}
