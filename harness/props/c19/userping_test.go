package c19

import (
	"fmt"
	"net"
	"testing"
	"testing/synctest"
	"time"

	"pgregory.net/rapid"

	"verif/harness/puppet"
	"verif/harness/vfx"
	"verif/harness/wire"
)

// The user's Ping() shares the acknowledgement table with the probes: it counts as answered only if an acknowledgement
// carrying ITS sequence number arrives within ProbeTimeout; acknowledgements for other numbers (an earlier Ping, a
// probe in flight, an unknown number), nacks and late answers do not complete it, and it returns by its deadline.

type UPing struct {
	Ack     string // right | right-late | other | previous | nack | none | right-from-third
	DelayMs int
	Noise   bool // an acknowledgement with an unrelated number arrives first
}

type UPlan struct {
	Seed  uint64
	Pings []UPing
}

func genUPlan(t *rapid.T) UPlan {
	return UPlan{Seed: rapid.Uint64Range(1, 1<<30).Draw(t, "seed"), Pings: rapid.SliceOfN(rapid.Custom(func(t *rapid.T) UPing {
		return UPing{Ack: rapid.SampledFrom([]string{"right", "right", "right-late", "other", "previous", "nack", "none", "right-from-third"}).Draw(t, "ack"),
			DelayMs: rapid.SampledFrom([]int{1, 5, 50, 149}).Draw(t, "delay"), Noise: rapid.Bool().Draw(t, "noise")}
	}), 1, 6).Draw(t, "pings")}
}

func runU(pl UPlan) (res vfx.Result) {
	synctest.Test(theT, func(t *testing.T) { res = runUIn(pl) })
	return
}

func runUIn(pl UPlan) (res vfx.Result) {
	fail := func(f string, a ...any) vfx.Result { res.Err = fmt.Errorf(f, a...); return res }
	const timeout = 150 * time.Millisecond
	conf := puppet.NodeConf{Name: "n0", IP: "10.0.0.1", Port: 7946, IndirectChecks: 0, ProbeIntervalMs: 1000, ProbeTimeoutMs: 150, DisableTcpPings: true}
	p, err := puppet.New(pl.Seed, conf)
	if err != nil {
		return fail("create: %v", err)
	}
	defer func() { p.Shutdown(); time.Sleep(20 * time.Second) }()
	vsn := []uint8{1, 5, 2, 0, 0, 0}
	tg := p.AddPeer("t", "10.0.0.50", 7946, vsn)
	third := p.AddPeer("third", "10.0.0.51", 7946, vsn)
	tg.AckPings = false
	var cur UPing
	var prevSeq uint32
	var seen []uint32
	tg.OnLeaf = func(from string, l wire.Leaf) bool {
		pg, ok := l.V.(*wire.Ping)
		if !ok || pg.Node != "t" {
			return false
		}
		seq := pg.SeqNo
		seen = append(seen, seq)
		send := func(pe *puppet.Peer, after time.Duration, leaf []byte) {
			time.AfterFunc(after, func() { pe.SendLeaves(p.Addr(), [][]byte{leaf}, puppet.Carrier{}) })
		}
		d := time.Duration(cur.DelayMs) * time.Millisecond
		if cur.Noise {
			send(tg, d/2, wire.Encode(wire.AckRespMsg, &wire.Ack{SeqNo: seq + 1000}))
		}
		switch cur.Ack {
		case "right":
			send(tg, d, wire.Encode(wire.AckRespMsg, &wire.Ack{SeqNo: seq}))
		case "right-from-third":
			send(third, d, wire.Encode(wire.AckRespMsg, &wire.Ack{SeqNo: seq})) // the number is what correlates, not the sender
		case "right-late":
			send(tg, timeout+d, wire.Encode(wire.AckRespMsg, &wire.Ack{SeqNo: seq}))
		case "other":
			send(tg, d, wire.Encode(wire.AckRespMsg, &wire.Ack{SeqNo: seq + 7}))
		case "previous":
			send(tg, d, wire.Encode(wire.AckRespMsg, &wire.Ack{SeqNo: prevSeq}))
		case "nack":
			send(tg, d, wire.Encode(wire.NackRespMsg, &wire.Nack{SeqNo: seq}))
		}
		return true
	}
	for i, u := range pl.Pings {
		cur = u
		n0 := len(seen)
		t0 := time.Now()
		rtt, err := p.M.Ping("t", &net.UDPAddr{IP: net.IPv4(10, 0, 0, 50), Port: 7946})
		took := time.Since(t0)
		if len(seen) != n0+1 {
			return fail("ping %d: the target saw %d ping messages for one Ping() call", i, len(seen)-n0)
		}
		want := u.Ack == "right" || u.Ack == "right-from-third"
		switch {
		case want && err != nil:
			return fail("ping %d %+v: an acknowledgement with the ping's own number arrived %d ms after it was sent (timeout 150 ms) but Ping returned %v", i, u, u.DelayMs, err)
		case !want && err == nil:
			return fail("ping %d %+v: no acknowledgement carrying the ping's own number %d arrived within the timeout, yet Ping reported success (rtt %v)", i, u, seen[len(seen)-1], rtt)
		}
		if took > timeout+5*time.Millisecond {
			return fail("ping %d %+v: Ping() returned after %v (ProbeTimeout 150 ms)", i, u, took)
		}
		if want && (rtt < time.Duration(u.DelayMs)*time.Millisecond || rtt > time.Duration(u.DelayMs)*time.Millisecond+5*time.Millisecond) {
			return fail("ping %d %+v: reported round trip %v for an acknowledgement sent %d ms after the ping arrived", i, u, rtt, u.DelayMs)
		}
		prevSeq = seen[len(seen)-1]
		res.Labels = append(res.Labels, "userping:"+u.Ack)
		if !want || u.Noise {
			res.NonTrivial = true
		}
		time.Sleep(400 * time.Millisecond) // late answers of this call arrive before the next one starts
		if hs := p.M.GetHealthScore(); hs != 0 {
			return fail("ping %d %+v: health score %d after a user Ping (nobody is probed here: the node knows no member)", i, u, hs)
		}
	}
	return
}

func TestUserPing(t *testing.T) {
	theT = t
	vfx.Check(t, genUPlan, runU)
}
