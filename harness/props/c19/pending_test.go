//go:build vfhook

package c19

import (
	"fmt"
	"testing"
	"testing/synctest"
	"time"

	"github.com/hashicorp/memberlist"
	"pgregory.net/rapid"

	"verif/harness/puppet"
	"verif/harness/vfx"
	"verif/harness/wire"
)

// Cleanup clause of C19: every pending-probe record is discarded by its
// deadline. Needs the overlay hook VfPendingAcks (see /verif/hooks).

type PPlan struct {
	Seed    uint64
	Silent  bool // the subject never answers
	Relays  int  // indirect-ping requests sent to the node (relay handlers)
	RelayOK bool // their target answers
	Pings   int  // Ping() API calls to a silent address
	NoiseN  int
}

func runPPlan(pl PPlan) (res vfx.Result) {
	synctest.Test(theT, func(t *testing.T) { res = runP(pl) })
	return
}

func runP(pl PPlan) (res vfx.Result) {
	fail := func(f string, a ...any) vfx.Result { res.Err = fmt.Errorf(f, a...); return res }
	conf := puppet.NodeConf{Name: "n0", IP: "10.0.0.1", Port: 7946, IndirectChecks: 1, ProbeIntervalMs: 500, ProbeTimeoutMs: 150, DisableTcpPings: true, AwarenessMax: 2}
	p, err := puppet.New(pl.Seed, conf)
	if err != nil {
		return fail("create: %v", err)
	}
	defer func() { p.Shutdown(); time.Sleep(20 * time.Second) }()
	vsn := []uint8{1, 5, 2, 0, 0, 0}
	x := p.AddPeer("x", "10.0.0.50", 7946, vsn)
	h := p.AddPeer("h", "10.0.0.51", 7946, vsn)
	x.AckPings = !pl.Silent
	h.Relay = false
	tgt := p.AddPeer("tgt", "10.0.0.60", 7946, vsn)
	tgt.AckPings = pl.RelayOK
	p.Inject(h.Addr(), [][]byte{
		puppet.Claim{Kind: "alive", Node: "x", Inc: 1, Addr: x.IPBytes(), Port: 7946, Vsn: vsn}.Leaf(),
		puppet.Claim{Kind: "alive", Node: "h", Inc: 1, Addr: h.IPBytes(), Port: 7946, Vsn: vsn}.Leaf(),
	}, puppet.Carrier{Kind: "compound"})
	maxSeen := 0
	for i := 0; i < pl.Relays; i++ {
		h.EP.Send(p.Addr(), p.Outer(wire.Encode(wire.IndirectPingMsg, &wire.IndirectPing{SeqNo: uint32(100 + i), Target: tgt.IPBytes(), Port: 7946, Node: "tgt", Nack: i%2 == 0})))
	}
	for i := 0; i < pl.NoiseN; i++ {
		h.EP.Send(p.Addr(), p.Outer(wire.Encode(wire.AckRespMsg, &wire.Ack{SeqNo: uint32(5000 + i)})))
		h.EP.Send(p.Addr(), p.Outer(wire.Encode(wire.NackRespMsg, &wire.Nack{SeqNo: uint32(5000 + i)})))
	}
	for i := 0; i < pl.Pings; i++ {
		go func() { _, _ = p.M.Ping("ghost", &netAddr{"10.0.0.77:7946"}) }()
	}
	// several probe rounds
	for r := 0; r < 8; r++ {
		time.Sleep(250 * time.Millisecond)
		if n := memberlist.VfPendingAcks(p.M); n > maxSeen {
			maxSeen = n
		}
	}
	// quiescence: stop the probe ticker's work by letting every deadline pass after shutdown of peers is not
	// possible from outside; instead wait for a moment right after a probe completed and before the next tick.
	p.AvoidProbeTick(5 * time.Millisecond)
	// at most the probe currently in flight may be pending
	time.Sleep(0)
	n := memberlist.VfPendingAcks(p.M)
	inflight := 0
	if pl.Silent {
		inflight = 1 // a failing probe occupies the whole (scaled) interval
	}
	if n > inflight+0 && !pl.Silent {
		// with a responsive subject every probe is answered within a millisecond
		return fail("%d pending acknowledgement handlers at a quiescent instant (relay requests %d, Ping calls %d): records are not discarded", n, pl.Relays, pl.Pings)
	}
	if n > 1 {
		return fail("%d pending acknowledgement handlers while at most one probe can be in flight", n)
	}
	p.Shutdown()
	time.Sleep(3 * time.Second)
	if n := memberlist.VfPendingAcks(p.M); n != 0 {
		return fail("%d pending acknowledgement handlers 3 s after every deadline has passed", n)
	}
	res.NonTrivial = maxSeen > 0
	res.Labels = []string{fmt.Sprintf("max-pending=%d", min(maxSeen, 5))}
	return res
}

type netAddr struct{ s string }

func (a *netAddr) Network() string { return "udp" }
func (a *netAddr) String() string  { return a.s }

func TestPendingAcksDiscarded(t *testing.T) {
	theT = t
	vfx.Check(t, func(t *rapid.T) PPlan {
		return PPlan{Seed: rapid.Uint64Range(1, 1<<30).Draw(t, "seed"), Silent: rapid.Bool().Draw(t, "silent"), Relays: rapid.IntRange(0, 6).Draw(t, "relays"),
			RelayOK: rapid.Bool().Draw(t, "relayok"), Pings: rapid.IntRange(0, 3).Draw(t, "pings"), NoiseN: rapid.IntRange(0, 5).Draw(t, "noise")}
	}, runPPlan)
}
