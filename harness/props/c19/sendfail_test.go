package c19

import (
	"errors"
	"fmt"
	"net"
	"sort"
	"sync"
	"testing"
	"testing/synctest"
	"time"

	"pgregory.net/rapid"

	"verif/harness/puppet"
	"verif/harness/simnet"
	"verif/harness/vfx"
	"verif/harness/wire"
)

// Probes whose ping cannot be SENT. The transport reports either a local problem (any error that is not a socket
// write error: no route, encode failure ...) or the peer's side (a udp write *net.OpError). A probe that never left
// the node says nothing about anybody: the health score does not move, nobody is suspected, nobody is asked to help.
// A write error blamed on the peer makes the node skip the wait and ask its helpers at once; unanswered, the probe
// fails at its deadline like any other (and costs health according to the nack rule). The health score starts above
// zero (the node refuted accusations about itself) so that an unearned improvement is visible.

type SFPlan struct {
	Seed      uint64
	Helpers   int
	HelperPM  []uint8
	AwMax     int
	PreHealth int
	Modes     []string // per probe of the subject: ok | local | remote
	Nacks     [][]bool // per probe of the subject, per helper: sends the nack it was asked for
}

func genSFPlan(t *rapid.T) SFPlan {
	p := SFPlan{Seed: rapid.Uint64Range(1, 1<<40).Draw(t, "seed"), Helpers: rapid.IntRange(0, 2).Draw(t, "helpers"),
		AwMax: rapid.SampledFrom([]int{2, 4, 8}).Draw(t, "awmax"), PreHealth: rapid.IntRange(0, 3).Draw(t, "prehealth")}
	for i := 0; i < p.Helpers; i++ {
		p.HelperPM = append(p.HelperPM, uint8(rapid.SampledFrom([]int{3, 4, 5}).Draw(t, "hpm")))
	}
	n := rapid.IntRange(1, 5).Draw(t, "nprobes")
	for i := 0; i < n; i++ {
		p.Modes = append(p.Modes, rapid.SampledFrom([]string{"ok", "local", "local", "remote"}).Draw(t, "mode"))
		var nk []bool
		for h := 0; h < p.Helpers; h++ {
			nk = append(nk, rapid.Bool().Draw(t, "nack"))
		}
		p.Nacks = append(p.Nacks, nk)
	}
	return p
}

func runSFPlan(pl SFPlan) (res vfx.Result) {
	synctest.Test(theT, func(t *testing.T) { res = runSF(pl) })
	return
}

func runSF(pl SFPlan) (res vfx.Result) {
	labels := map[string]bool{}
	var hist []string
	var hmu sync.Mutex
	logf := func(f string, a ...any) { hmu.Lock(); hist = append(hist, fmt.Sprintf(f, a...)); hmu.Unlock() }
	done := func() vfx.Result {
		res.History = hist
		for l := range labels {
			res.Labels = append(res.Labels, l)
		}
		sort.Strings(res.Labels)
		return res
	}
	fail := func(f string, a ...any) vfx.Result { res.Err = fmt.Errorf(f, a...); return done() }
	conf := puppet.NodeConf{Name: "n0", IP: "10.0.0.1", Port: 7946, IndirectChecks: pl.Helpers, ProbeIntervalMs: 1000, ProbeTimeoutMs: 300,
		DisableTcpPings: true, AwarenessMax: pl.AwMax, SuspicionMult: 60, SuspicionMaxMult: 2, GossipIntervalMs: -1}
	p, err := puppet.New(pl.Seed, conf)
	if err != nil {
		return fail("create: %v", err)
	}
	defer func() { p.Shutdown(); time.Sleep(time.Duration(pl.AwMax+2)*P + 20*time.Second) }()
	clampS := func(v int) int {
		if v < 0 {
			return 0
		}
		if v > pl.AwMax-1 {
			return pl.AwMax - 1
		}
		return v
	}
	var mu sync.Mutex
	probeIdx := -1 // index of the current probe of x
	var parts [][]byte
	var helpers []*puppet.Peer
	for i := 0; i < pl.Helpers; i++ {
		i := i
		h := p.AddPeer(fmt.Sprintf("h%d", i), fmt.Sprintf("10.0.0.%d", 20+i), 7946, []uint8{1, pl.HelperPM[i], 2, 0, 0, 0})
		h.Relay = false
		h.OnLeaf = func(from string, l wire.Leaf) bool {
			ip, ok := l.V.(*wire.IndirectPing)
			if !ok {
				return false // pings are acknowledged by default
			}
			mu.Lock()
			idx := probeIdx
			mu.Unlock()
			if ip.Node == "x" && ip.Nack && idx >= 0 && idx < len(pl.Nacks) && pl.Nacks[idx][i] {
				h.EP.Send(p.Addr(), p.Outer(wire.Encode(wire.NackRespMsg, &wire.Nack{SeqNo: ip.SeqNo})))
			}
			return true // never relays
		}
		helpers = append(helpers, h)
		parts = append(parts, puppet.Claim{Kind: "alive", Node: h.Name, Inc: 1, Addr: h.IPBytes(), Port: 7946, Vsn: h.Vsn}.Leaf())
	}
	x := p.AddPeer("x", "10.0.0.50", 7946, []uint8{1, 5, 2, 0, 0, 0})
	parts = append(parts, puppet.Claim{Kind: "alive", Node: "x", Inc: 1, Addr: x.IPBytes(), Port: 7946, Vsn: x.Vsn}.Leaf())

	// what the transport reports for the next probe of x
	errFor := func(mode string) error {
		switch mode {
		case "local":
			return errors.New("no route to host (local routing table)")
		case "remote":
			return &net.OpError{Op: "write", Net: "udp", Err: errors.New("sendto: connection refused")}
		}
		return nil
	}
	// model: completions in time order
	type completion struct {
		at    time.Duration
		delta int
		what  string
	}
	var comps []completion
	type xprobe struct {
		idx      int
		at       time.Duration
		mode     string
		deadline time.Duration
		asked    map[int]bool // helpers that were sent an indirect request for this probe (the node picks them at random and may miss some)
	}
	var xs []*xprobe
	var lastTrace []string
	remoteDelta := func(xp *xprobe) (delta, exp, got int) {
		for h := range xp.asked {
			if pl.HelperPM[h] >= 4 {
				exp++
				if pl.Nacks[xp.idx][h] {
					got++
				}
			}
		}
		if exp > 0 {
			return exp - got, exp, got
		}
		return 1, 0, 0
	}
	// model score at instant t (mu held): every completion up to and including t, in time order
	modelAt := func(t time.Duration) int {
		all := append([]completion(nil), comps...)
		for _, xp := range xs {
			if xp.mode == "remote" {
				d, exp, got := remoteDelta(xp)
				all = append(all, completion{xp.deadline, d, fmt.Sprintf("x probe %d failed (asked %d helpers, expected %d nacks, got %d)", xp.idx, len(xp.asked), exp, got)})
			}
		}
		sort.SliceStable(all, func(i, j int) bool { return all[i].at < all[j].at })
		s := 0
		lastTrace = lastTrace[:0]
		for _, c := range all {
			if c.at <= t {
				s = clampS(s + c.delta)
				lastTrace = append(lastTrace, fmt.Sprintf("%v %+d %s", c.at, c.delta, c.what))
			}
		}
		return s
	}
	p.Net.OnEvent = func(e simnet.Event) {
		if e.Src != p.Addr() || (e.Kind != "pkt" && e.Kind != "pkt-send-error") {
			return
		}
		info, err := p.Codec.DecodePacket(e.Data)
		if err != nil {
			return
		}
		for _, l := range info.Leaves {
			switch v := l.V.(type) {
			case *wire.Ping:
				if v.SourceNode != "n0" {
					continue
				}
				mu.Lock()
				if v.Node == "x" {
					probeIdx++
					idx := probeIdx
					if idx >= len(pl.Modes) {
						// beyond the plan: the transport works again and x answers
						if e.Kind == "pkt" {
							comps = append(comps, completion{e.T + 2*lat0, -1, fmt.Sprintf("x probe %d (after the plan) answered", idx)})
						}
					}
					if idx < len(pl.Modes) {
						mode := pl.Modes[idx]
						sc := modelAt(e.T)
						xp := &xprobe{idx: idx, at: e.T, mode: mode, deadline: e.T + time.Duration(sc+1)*P, asked: map[int]bool{}}
						xs = append(xs, xp)
						switch mode {
						case "ok":
							comps = append(comps, completion{e.T + 2*lat0, -1, fmt.Sprintf("x probe %d answered", idx)})
						case "local":
							// nothing
						}
						// the transport's answer for the NEXT probe of x
						if idx+1 < len(pl.Modes) {
							p.EP.SetSendError(x.Addr(), errFor(pl.Modes[idx+1]))
						} else {
							p.EP.SetSendError(x.Addr(), nil)
						}
					}
				} else if e.Kind == "pkt" {
					comps = append(comps, completion{e.T + 2*lat0, -1, "helper probe answered"})
				}
				mu.Unlock()
			case *wire.IndirectPing:
				if e.Kind == "pkt" && v.Node == "x" {
					mu.Lock()
					if len(xs) > 0 {
						for hi, h := range helpers {
							if h.Addr() == e.Dst {
								xs[len(xs)-1].asked[hi] = true
							}
						}
					}
					mu.Unlock()
				}
			}
		}
	}
	p.EP.SetSendError(x.Addr(), errFor(pl.Modes[0]))
	p.Inject("10.0.0.98:7946", parts, puppet.Carrier{Kind: "compound"})
	for i := 0; i < pl.PreHealth; i++ {
		p.Net.SendFrom("10.0.0.98:7946", p.Addr(), p.Outer(puppet.Claim{Kind: "suspect", Node: "n0", Inc: uint32(1 + i), From: "acc"}.Leaf()))
		time.Sleep(300 * time.Microsecond)
		mu.Lock()
		comps = append(comps, completion{p.Net.Now(), +1, "refuted an accusation"})
		mu.Unlock()
	}
	// (history: every change of the health score, sampled every 10 ms)
	stopSample := make(chan struct{})
	defer close(stopSample)
	go func() {
		last := -1
		for {
			select {
			case <-stopSample:
				return
			case <-time.After(10 * time.Millisecond):
			}
			if h := p.M.GetHealthScore(); h != last {
				logf("%v health %d -> %d", p.Net.Now(), last, h)
				last = h
			}
		}
	}()
	// ---- run until every planned probe of x is over ----
	checked := 0
	for guard := 0; guard < 3000 && checked < len(pl.Modes); guard++ {
		time.Sleep(50 * time.Millisecond)
		mu.Lock()
		var xp *xprobe
		if checked < len(xs) {
			xp = xs[checked]
		}
		mu.Unlock()
		if xp == nil {
			continue
		}
		end := xp.at + 20*time.Millisecond
		if xp.mode == "remote" {
			end = xp.deadline + 20*time.Millisecond
		}
		if w := end - p.Net.Now(); w > 0 {
			time.Sleep(w)
		}
		p.Settle()
		now := p.Net.Now()
		d, derr := p.Dump()
		if derr != nil {
			return fail("%v", derr)
		}
		mu.Lock()
		nreq := len(xp.asked)
		mu.Unlock()
		labels["mode:"+xp.mode] = true
		switch xp.mode {
		case "local":
			if nreq != 0 {
				return fail("probe %d of x could not be sent (local error) but %d indirect ping requests were issued for it", xp.idx, nreq)
			}
		case "remote":
			if d["x"].State == wire.StateAlive {
				return fail("probe %d of x failed (write refused, no acknowledgement by %v) but x is %s", xp.idx, xp.deadline, wire.StateName(d["x"].State))
			}
			if nreq > 0 {
				labels["remote-failure-with-helpers-asked"] = true
			}
		}
		if xp.mode == "local" && xp.idx == 0 && d["x"].State != wire.StateAlive {
			return fail("the first probe of x never left the node (local send error), yet x is %s", wire.StateName(d["x"].State))
		}
		mu.Lock()
		want := modelAt(now)
		trace := append([]string(nil), lastTrace...)
		mu.Unlock()
		have := p.M.GetHealthScore()
		logf("%v probe %d of x (%s, sent %v): health %d, model %d", now, xp.idx, xp.mode, xp.at, have, want)
		if have != want {
			return fail("after probe %d of x (%s; ping at %v) the health score is %d, the model says %d (max %d)\n  model trace: %v\n  node log: %v", xp.idx, xp.mode, xp.at, have, want, pl.AwMax-1, trace, logTail(p, 14))
		}
		if xp.mode != "ok" && want > 0 {
			res.NonTrivial = true
			labels["unsent-probe-with-health>0"] = true
		}
		checked++
	}
	if checked < len(pl.Modes) {
		labels["not-all-probes-observed"] = true
	}
	return done()
}

const lat0 = 200 * time.Microsecond

func TestProbeSendFailure(t *testing.T) {
	theT = t
	vfx.Check(t, genSFPlan, runSFPlan)
}

func logTail(p *puppet.Puppet, n int) []string {
	l := p.Log.Snapshot()
	if len(l) > n {
		l = l[len(l)-n:]
	}
	return l
}
