package c19

import (
	"fmt"
	"sort"
	"testing"
	"testing/synctest"
	"time"

	"pgregory.net/rapid"

	"verif/harness/puppet"
	"verif/harness/vfx"
	"verif/harness/wire"
)

// Relay role: the real node is asked to probe a target on another node's behalf.

type Req struct {
	AtMs   int
	Seq    uint32
	Nack   bool
	Answer string // intime | late | never | foreign | intime-dup | unreachable (the node's own send towards the target fails) | prequeued (the acknowledgement for the relay's own ping is already waiting behind the request: same packet)
	UseSrc bool   // request carries SourceAddr/SourcePort (reply goes there) or not (reply to the UDP source)
}

type RPlan struct {
	Seed uint64
	Reqs []Req
	// what the relay itself believes about the target (it is asked all the same, and answers by the same rules)
	// accusations about the relay itself delivered first: it refutes each, so its own health score is that much above zero
	// (how long a relay waits, and what it does with a late acknowledgement, must not depend on it)
	PreHealth   int    `json:",omitempty"`
	TargetKnown string `json:",omitempty"` // "" unknown | dead | left (a target the relay holds alive would also be probed by the relay itself, which this test does not model)
}

func genRPlan(t *rapid.T) RPlan {
	p := RPlan{Seed: rapid.Uint64Range(1, 1<<40).Draw(t, "seed"), TargetKnown: rapid.SampledFrom([]string{"", "", "dead", "left"}).Draw(t, "known"),
		PreHealth: rapid.SampledFrom([]int{0, 0, 1, 2, 5}).Draw(t, "prehealth")}
	at := 0
	p.Reqs = rapid.SliceOfN(rapid.Custom(func(t *rapid.T) Req {
		at += rapid.SampledFrom([]int{1, 2, 50, 299, 301, 700}).Draw(t, "gap")
		return Req{AtMs: at, Seq: uint32(rapid.SampledFrom([]int{1, 2, 3, 77, 1 << 20}).Draw(t, "seq")), Nack: rapid.Bool().Draw(t, "nack"),
			Answer: rapid.SampledFrom([]string{"intime", "intime", "late", "never", "foreign", "intime-dup", "unreachable", "prequeued", "prequeued"}).Draw(t, "answer"), UseSrc: rapid.Bool().Draw(t, "usesrc")}
	}), 1, 6).Draw(t, "reqs")
	return p
}

func runRPlan(pl RPlan) (res vfx.Result) {
	synctest.Test(theT, func(t *testing.T) { res = runR(pl) })
	return
}

func runR(pl RPlan) (res vfx.Result) {
	labels := map[string]bool{}
	done := func() vfx.Result {
		for l := range labels {
			res.Labels = append(res.Labels, l)
		}
		sort.Strings(res.Labels)
		return res
	}
	fail := func(f string, a ...any) vfx.Result { res.Err = fmt.Errorf(f, a...); return done() }
	// probe ticker effectively off (the node has no members to probe anyway), gossip off
	conf := puppet.NodeConf{Name: "n0", IP: "10.0.0.1", Port: 7946, ProbeIntervalMs: 1000, ProbeTimeoutMs: 300, GossipIntervalMs: -1}
	p, err := puppet.New(pl.Seed, conf)
	if err != nil {
		return fail("create: %v", err)
	}
	defer func() { p.Shutdown(); time.Sleep(20 * time.Second) }()
	vsn := []uint8{1, 5, 2, 0, 0, 0}
	req := p.AddPeer("req", "10.0.0.30", 7946, vsn)
	req.AckPings = false
	tgt := p.AddPeer("tgt", "10.0.0.40", 7946, vsn)
	tgt.AckPings = false
	type seen struct {
		at  time.Duration
		seq uint32
	}
	var pings []seen // pings the node sent to the target, in order
	answers := make([]string, 0)
	nReach := 0
	for _, r := range pl.Reqs {
		if r.Answer != "unreachable" {
			answers = append(answers, r.Answer)
			nReach++
		}
	}
	// a second target address towards which the node's packet writes fail (no route to host)
	lost := p.AddPeer("lost", "10.0.0.41", 7946, vsn)
	lost.AckPings = false
	p.EP.SetUnreachable(lost.Addr(), true)
	tgt.OnLeaf = func(from string, l wire.Leaf) bool {
		pg, ok := l.V.(*wire.Ping)
		if !ok {
			return true
		}
		idx := len(pings)
		pings = append(pings, seen{p.Net.Now(), pg.SeqNo})
		if idx >= len(answers) {
			return true
		}
		send := func(seq uint32, d time.Duration) {
			time.AfterFunc(d, func() { tgt.EP.Send(p.Addr(), p.Outer(wire.Encode(wire.AckRespMsg, &wire.Ack{SeqNo: seq}))) })
		}
		switch answers[idx] {
		case "intime":
			send(pg.SeqNo, 100*time.Millisecond)
		case "intime-dup":
			send(pg.SeqNo, 100*time.Millisecond)
			send(pg.SeqNo, 120*time.Millisecond)
		case "late":
			send(pg.SeqNo, 340*time.Millisecond)
		case "foreign":
			send(pg.SeqNo+7, 100*time.Millisecond)
		}
		return true
	}
	for i := 0; i < pl.PreHealth; i++ {
		p.Inject(req.Addr(), [][]byte{puppet.Claim{Kind: "suspect", Node: "n0", Inc: uint32(1000 * (i + 1)), From: "req"}.Leaf()}, puppet.Carrier{})
	}
	if pl.PreHealth > 0 {
		if hs := p.M.GetHealthScore(); hs != min(pl.PreHealth, 7) {
			return fail("setup: health score %d after %d refuted accusations", hs, pl.PreHealth)
		}
		labels[fmt.Sprintf("relay-health-%d", pl.PreHealth)] = true
	}
	if pl.TargetKnown != "" {
		// (a departed or failed member is not probed by the relay itself and nothing is gossiped here)
		parts := [][]byte{puppet.Claim{Kind: "alive", Node: "tgt", Inc: 1, Addr: tgt.IPBytes(), Port: 7946, Vsn: vsn}.Leaf()}
		switch pl.TargetKnown {
		case "suspect":
			parts = append(parts, puppet.Claim{Kind: "suspect", Node: "tgt", Inc: 1, From: "req"}.Leaf())
		case "dead":
			parts = append(parts, puppet.Claim{Kind: "dead", Node: "tgt", Inc: 1, From: "req"}.Leaf())
		case "left":
			parts = append(parts, puppet.Claim{Kind: "dead", Node: "tgt", Inc: 1, From: "tgt"}.Leaf())
		}
		p.Inject(req.Addr(), parts, puppet.Carrier{Kind: "compound"})
		labels["target-known:"+pl.TargetKnown] = true
	}
	start := p.Net.Now()
	type sent struct {
		at time.Duration
		r  Req
	}
	var sentReqs []sent
	for _, r := range pl.Reqs {
		if w := start + time.Duration(r.AtMs)*time.Millisecond - p.Net.Now(); w > 0 {
			time.Sleep(w)
		}
		ind := &wire.IndirectPing{SeqNo: r.Seq, Target: tgt.IPBytes(), Port: 7946, Node: "tgt", Nack: r.Nack}
		if r.Answer == "unreachable" {
			ind.Target, ind.Node = lost.IPBytes(), "lost"
		}
		if r.UseSrc {
			ind.SourceAddr, ind.SourcePort, ind.SourceNode = req.IPBytes(), 7946, "req"
		}
		sentReqs = append(sentReqs, sent{p.Net.Now(), r})
		if r.Answer == "prequeued" {
			// the node numbers its own pings consecutively and nothing else uses the counter here: request k gets number k.
			// The acknowledgement for that number travels in the same packet, right behind the request, so it is handled
			// the moment the request has been (whether or not the goroutine that would send the nack has got going).
			predicted := uint32(len(sentReqs))
			req.EP.Send(p.Addr(), p.Outer(wire.Compound([][]byte{wire.Encode(wire.IndirectPingMsg, ind), wire.Encode(wire.AckRespMsg, &wire.Ack{SeqNo: predicted})})))
			continue
		}
		req.EP.Send(p.Addr(), p.Outer(wire.Encode(wire.IndirectPingMsg, ind)))
	}
	time.Sleep(2 * time.Second)
	p.Settle()
	if len(pings) != nReach {
		return fail("%d indirect ping requests for the reachable target produced %d pings to it", nReach, len(pings))
	}
	out, _, err := p.OutboundSince(0)
	if err != nil {
		return fail("%v", err)
	}
	usedSeq := map[uint32]bool{}
	for i, pg := range pings {
		if usedSeq[pg.seq] {
			return fail("request %d: the ping to the target reuses sequence number %d", i, pg.seq)
		}
		usedSeq[pg.seq] = true
	}
	// replies to the requester, matched to requests in order per sequence number
	type rep struct {
		at   time.Duration
		nack bool
		seq  uint32
	}
	var reps []rep
	for _, o := range out {
		if o.Dst != req.Addr() {
			continue
		}
		switch v := o.Leaf.V.(type) {
		case *wire.Ack:
			reps = append(reps, rep{o.T, false, v.SeqNo})
		case *wire.Nack:
			reps = append(reps, rep{o.T, true, v.SeqNo})
		}
	}
	used := make([]bool, len(reps))
	const T300 = 300 * time.Millisecond
	for i, s := range sentReqs {
		r := s.r
		recv := s.at + 200*time.Microsecond // the node received the request
		intime := r.Answer == "intime" || r.Answer == "intime-dup"
		if r.Answer == "prequeued" {
			// judged as "answered in time" only when the number was predicted correctly (the ping the target saw carries it)
			hit := false
			for _, pg := range pings {
				if pg.seq == uint32(i+1) && pg.at >= recv && pg.at < recv+time.Millisecond {
					hit = true
				}
			}
			if hit {
				intime = true
				labels["prequeued-hit"] = true
			} else {
				labels["prequeued-miss"] = true
				// an acknowledgement for an unknown number has no effect: the request is simply unanswered
			}
		}
		var acks, nacks []rep
		for j, rp := range reps {
			if used[j] || rp.seq != r.Seq {
				continue
			}
			// requests may repeat the requester's number and their windows may overlap: an answered request is matched
			// with an ack, an unanswered one with a nack; whatever is left over is reported as unexpected below
			if rp.nack == intime {
				continue
			}
			// replies for this request lie in (recv, recv + ProbeTimeout + 5ms]
			if rp.at < recv || rp.at > recv+T300+5*time.Millisecond {
				continue
			}
			// a later identical request may overlap: take the reply that fits this request's expected instant
			wantAt := recv + T300
			if r.Answer == "intime" || r.Answer == "intime-dup" {
				wantAt = recv + 100*time.Millisecond + 400*time.Microsecond
			}
			if r.Answer == "prequeued" && intime {
				wantAt = recv
			}
			if d := rp.at - wantAt; d < -300*time.Microsecond || d > 300*time.Microsecond {
				continue
			}
			if rp.nack {
				nacks = append(nacks, rp)
			} else {
				acks = append(acks, rp)
			}
			used[j] = true
			break
		}
		lab := fmt.Sprintf("%s|nack=%v", r.Answer, r.Nack)
		labels[lab] = true
		switch {
		case intime:
			if len(acks) != 1 || len(nacks) != 0 {
				return fail("request %d (seq %d, %s): expected exactly one relayed ack under the requester's number about 100 ms after the request, got acks %v nacks %v; all replies %v", i, r.Seq, r.Answer, acks, nacks, reps)
			}
		case r.Nack:
			if len(nacks) != 1 || len(acks) != 0 {
				return fail("request %d (seq %d, %s, nack requested): expected exactly one nack at the probe timeout, got acks %v nacks %v; all replies %v", i, r.Seq, r.Answer, acks, nacks, reps)
			}
		default:
			if len(acks)+len(nacks) != 0 {
				return fail("request %d (seq %d, %s, no nack requested): expected no reply, got acks %v nacks %v", i, r.Seq, r.Answer, acks, nacks)
			}
		}
	}
	for j, rp := range reps {
		if !used[j] {
			return fail("unexpected reply to the requester: %+v (requests %+v; all replies %v)", rp, pl.Reqs, reps)
		}
	}
	res.NonTrivial = true
	res.Sub = map[string]int64{"requests": int64(len(pl.Reqs))}
	return done()
}

func TestRelay(t *testing.T) {
	theT = t
	vfx.Check(t, genRPlan, runRPlan)
}
