// C19 — probe acknowledgements are correctly correlated, relayed and cleaned
// up. Prober role: the real node probes a scripted subject whose direct,
// relayed and TCP answers (and a stream of foreign acks/nacks) arrive exactly
// when the plan says, relative to the probe's own deadlines.
package c19

import (
	"fmt"
	"net"
	"sort"
	"sync"
	"testing"
	"testing/synctest"
	"time"

	"pgregory.net/rapid"

	"verif/harness/puppet"
	"verif/harness/simnet"
	"verif/harness/vfx"
	"verif/harness/wire"
)

func TestMain(m *testing.M) { vfx.Main(m) }

// When an answer arrives, relative to the probe: "early" < ProbeTimeout,
// "mid" between ProbeTimeout and the probe deadline, "late" after the deadline.
type Probe struct {
	Direct    string   // none | early | mid | late
	Relay     []string // per helper: none | mid | late | wrongseq
	Nack      []bool   // per helper: send a nack at ProbeTimeout + a bit (if one was requested)
	NackDup   []int    // per helper: that many extra copies of its nack (network duplication)
	NackThird int      // nacks carrying this probe's number sent by a stranger
	TCP       string   // refuse | stall | right | wrong | late | garbage
	Noise     []Noise
	DupAck    bool // a valid ack is delivered twice
}

type Noise struct {
	Kind string // ack | nack
	Seq  string // unknown | previous | helper | zero | max
	When string // early | mid | late
	From string // subject | helper | stranger
}

type Plan struct {
	Seed     uint64
	Helpers  int     // = IndirectChecks
	HelperPM []uint8 // PMax advertised by each helper (nack expected at >= 4)
	SubjPMax uint8   // TCP fallback at >= 3
	NoTCP    bool
	PerNode  bool `json:",omitempty"` // NoTCP through DisableTcpPingsForNode(subject) instead of the global switch
	AwMax    int
	Probes   []Probe
}

func genPlan(t *rapid.T) Plan {
	p := Plan{Seed: rapid.Uint64Range(1, 1<<40).Draw(t, "seed"), Helpers: rapid.IntRange(0, 3).Draw(t, "helpers"),
		SubjPMax: uint8(rapid.SampledFrom([]int{2, 3, 5, 5}).Draw(t, "spmax")), NoTCP: rapid.IntRange(0, 3).Draw(t, "notcp") == 0, PerNode: rapid.Bool().Draw(t, "pernode"),
		AwMax: rapid.SampledFrom([]int{2, 4, 8}).Draw(t, "awmax")}
	for i := 0; i < p.Helpers; i++ {
		p.HelperPM = append(p.HelperPM, uint8(rapid.SampledFrom([]int{2, 3, 4, 5}).Draw(t, "hpm")))
	}
	p.Probes = rapid.SliceOfN(rapid.Custom(func(t *rapid.T) Probe {
		pr := Probe{Direct: rapid.SampledFrom([]string{"none", "none", "early", "mid", "late"}).Draw(t, "direct"),
			TCP: rapid.SampledFrom([]string{"refuse", "stall", "right", "wrong", "late", "garbage"}).Draw(t, "tcp"), DupAck: rapid.IntRange(0, 4).Draw(t, "dup") == 0}
		for i := 0; i < p.Helpers; i++ {
			pr.Relay = append(pr.Relay, rapid.SampledFrom([]string{"none", "none", "mid", "late", "wrongseq"}).Draw(t, "relay"))
			pr.Nack = append(pr.Nack, rapid.Bool().Draw(t, "nack"))
			pr.NackDup = append(pr.NackDup, rapid.SampledFrom([]int{0, 0, 0, 1, 3}).Draw(t, "nackdup"))
		}
		pr.NackThird = rapid.SampledFrom([]int{0, 0, 0, 1, 2}).Draw(t, "nackthird")
		pr.Noise = rapid.SliceOfN(rapid.Custom(func(t *rapid.T) Noise {
			return Noise{Kind: rapid.SampledFrom([]string{"ack", "ack", "nack"}).Draw(t, "nk"), Seq: rapid.SampledFrom([]string{"unknown", "previous", "helper", "zero", "max"}).Draw(t, "ns"),
				When: rapid.SampledFrom([]string{"early", "mid", "late"}).Draw(t, "nw"), From: rapid.SampledFrom([]string{"subject", "helper", "stranger"}).Draw(t, "nf")}
		}), 0, 4).Draw(t, "noise")
		return pr
	}), 1, 6).Draw(t, "probes")
	return p
}

var theT *testing.T

func runPlan(pl Plan) (res vfx.Result) {
	synctest.Test(theT, func(t *testing.T) { res = run(pl) })
	return
}

const (
	P = 1000 * time.Millisecond
	T = 300 * time.Millisecond
)

func run(pl Plan) (res vfx.Result) {
	labels := map[string]bool{}
	var hist []string
	var hmu sync.Mutex
	logf := func(f string, a ...any) { hmu.Lock(); hist = append(hist, fmt.Sprintf(f, a...)); hmu.Unlock() }
	done := func() vfx.Result {
		res.History = hist
		for l := range labels {
			res.Labels = append(res.Labels, l)
		}
		sort.Strings(res.Labels)
		return res
	}
	fail := func(f string, a ...any) vfx.Result { res.Err = fmt.Errorf(f, a...); return done() }
	conf := puppet.NodeConf{Name: "n0", IP: "10.0.0.1", Port: 7946, IndirectChecks: pl.Helpers, ProbeIntervalMs: 1000, ProbeTimeoutMs: 300,
		DisableTcpPings: pl.NoTCP && !pl.PerNode, AwarenessMax: pl.AwMax, SuspicionMult: 8, SuspicionMaxMult: 8, GossipIntervalMs: 200, TCPTimeoutMs: 2000}
	if pl.NoTCP && pl.PerNode {
		conf.NoTcpPingsFor = []string{"x"}
	} else if pl.PerNode {
		conf.NoTcpPingsFor = []string{"somebody-else"} // must not switch the fallback off for the subject
	}
	p, err := puppet.New(pl.Seed, conf)
	if err != nil {
		return fail("create: %v", err)
	}
	defer func() { p.Shutdown(); time.Sleep(time.Duration(pl.AwMax+2)*P + 20*time.Second) }()
	var parts [][]byte
	var helpers []*puppet.Peer
	for i := 0; i < pl.Helpers; i++ {
		h := p.AddPeer(fmt.Sprintf("h%d", i), fmt.Sprintf("10.0.0.%d", 20+i), 7946, []uint8{1, pl.HelperPM[i], 2, 0, 0, 0})
		h.Relay = false // scripted below
		helpers = append(helpers, h)
		parts = append(parts, puppet.Claim{Kind: "alive", Node: h.Name, Inc: 1, Addr: h.IPBytes(), Port: 7946, Vsn: h.Vsn}.Leaf())
	}
	x := p.AddPeer("x", "10.0.0.50", 7946, []uint8{1, pl.SubjPMax, 2, 0, 0, 0})
	x.AckPings, x.AckTCP = false, false
	parts = append(parts, puppet.Claim{Kind: "alive", Node: "x", Inc: 1, Addr: x.IPBytes(), Port: 7946, Vsn: x.Vsn}.Leaf())
	stranger := p.Net.NewEndpoint("10.0.0.99", 7946, nil2{})

	var mu sync.Mutex
	probeIdx := -1            // index of the current probe of x
	var probeSeq uint32       // its sequence number
	var probeAt time.Duration // its send instant
	var prevSeq, helperSeq uint32
	var helperProbes []time.Duration
	modelScore := 0
	type obs struct {
		idx      int
		at       time.Duration
		seq      uint32
		deadline time.Duration
		asked    map[int]bool // helpers that received an indirect request
		nackReq  map[int]bool
		tcpDial  bool
		// model verdict, computed at the deadline (before the next probe reads the health score)
		done          bool
		answered      bool
		route         string
		expectedNacks int
		gotNacks      int
		extraNacks    int
		scoreBefore   int
		boundsErr     error
		extraSeen     bool
		scoreAfter    int
		tcpOn         bool
	}
	var cur *obs
	var all []*obs
	sendAck := func(from *simnet.Endpoint, seq uint32, delay time.Duration) {
		time.AfterFunc(delay, func() { from.Send(p.Addr(), p.Outer(wire.Encode(wire.AckRespMsg, &wire.Ack{SeqNo: seq}))) })
	}
	sendNack := func(from *simnet.Endpoint, seq uint32, delay time.Duration) {
		time.AfterFunc(delay, func() { from.Send(p.Addr(), p.Outer(wire.Encode(wire.NackRespMsg, &wire.Nack{SeqNo: seq}))) })
	}
	when := func(w string, scaled time.Duration) time.Duration {
		switch w {
		case "early":
			return T / 2
		case "mid":
			return T + (scaled-T)/2
		}
		return scaled + 60*time.Millisecond
	}
	const lat = 200 * time.Microsecond
	// helpers: answer their own probes, remember the sequence number, and play the relay script
	for hi, h := range helpers {
		hi, h := hi, h
		h.OnLeaf = func(from string, l wire.Leaf) bool {
			switch v := l.V.(type) {
			case *wire.Ping:
				if v.Node == h.Name && v.SourceNode == "n0" {
					mu.Lock()
					helperSeq = v.SeqNo
					helperProbes = append(helperProbes, p.Net.Now())
					// a helper answers at once: that probe succeeds and improves the health score
					if modelScore > 0 {
						modelScore--
					}
					mu.Unlock()
				}
				return false // default: ack
			case *wire.IndirectPing:
				mu.Lock()
				o := cur
				mu.Unlock()
				if o == nil || v.Node != "x" || v.SeqNo != o.seq {
					return true
				}
				mu.Lock()
				o.asked[hi] = true
				o.nackReq[hi] = v.Nack
				pr := pl.Probes[o.idx]
				scaled := o.deadline - o.at
				mu.Unlock()
				since := p.Net.Now() - o.at
				switch pr.Relay[hi] {
				case "mid":
					sendAck(h.EP, o.seq, when("mid", scaled)-since-lat)
				case "late":
					sendAck(h.EP, o.seq, when("late", scaled)-since-lat)
				case "wrongseq":
					sendAck(h.EP, o.seq+1000, when("mid", scaled)-since-lat)
				}
				if pr.Nack[hi] && v.Nack {
					sendNack(h.EP, o.seq, T+T/2-since)
					for d := 0; d < pr.NackDup[hi]; d++ {
						sendNack(h.EP, o.seq, T+T/2-since+time.Duration(d+1)*time.Millisecond)
					}
				}
				return true
			}
			return false
		}
	}
	// the subject: direct probes trigger the script
	x.OnLeaf = func(from string, l wire.Leaf) bool {
		pg, ok := l.V.(*wire.Ping)
		if !ok || pg.Node != "x" || pg.SourceNode != "n0" {
			return true
		}
		mu.Lock()
		probeIdx++
		idx := probeIdx
		prevSeq = probeSeq
		probeSeq = pg.SeqNo
		probeAt = p.Net.Now() - lat
		if idx >= len(pl.Probes) {
			cur = nil
			mu.Unlock()
			return true
		}
		scaled := P * time.Duration(modelScore+1)
		o := &obs{idx: idx, at: probeAt, seq: pg.SeqNo, deadline: probeAt + scaled, asked: map[int]bool{}, nackReq: map[int]bool{}}
		cur = o
		all = append(all, o)
		pr := pl.Probes[idx]
		ps, hs := prevSeq, helperSeq
		mu.Unlock()
		finish := func(early bool) {
			mu.Lock()
			defer mu.Unlock()
			if o.done {
				return
			}
			o.route = "none"
			if pr.Direct == "early" || pr.Direct == "mid" {
				o.answered, o.route = true, "direct-"+pr.Direct
			}
			if pr.Direct != "early" {
				for hi := range pr.Relay {
					if o.asked[hi] && pr.Relay[hi] == "mid" {
						o.answered = true
						if o.route == "none" {
							o.route = "relay"
						}
					}
				}
				o.tcpOn = !pl.NoTCP && pl.SubjPMax >= 3
				if early && !o.answered {
					return // not decided yet: wait for the deadline
				}
				if !early && o.tcpOn && pr.TCP == "right" {
					o.answered = true
					if o.route == "none" {
						o.route = "tcp"
					}
				}
			}
			extra := pr.NackThird
			for hi := range o.asked {
				if o.nackReq[hi] {
					o.expectedNacks++
					if pr.Nack[hi] {
						o.gotNacks++
						extra += pr.NackDup[hi]
					}
				}
			}
			o.extraNacks = extra
			delta := -1
			if !o.answered {
				if o.expectedNacks > 0 {
					delta = o.expectedNacks - o.gotNacks
				} else {
					delta = 1
				}
			}
			o.scoreBefore = modelScore
			if o.extraNacks > 0 && !o.answered && o.expectedNacks > 0 {
				// duplicated / third-party nacks: how they are counted is not specified, but a failed probe
				// never improves the score and never costs more than the expected number of nacks. The node has
				// applied its verdict at the deadline, a moment ago: read it, check the bounds, follow it.
				obs := p.M.GetHealthScore()
				lo, hi := modelScore, modelScore+o.expectedNacks
				if hi > pl.AwMax-1 {
					hi = pl.AwMax - 1
				}
				if obs < lo {
					o.boundsErr = fmt.Errorf("the probe FAILED (%d extra nacks, %d expected, %d genuine), yet the health score fell from %d to %d: a failed probe must never improve the score", o.extraNacks, o.expectedNacks, o.gotNacks, lo, obs)
				} else if obs > hi {
					o.boundsErr = fmt.Errorf("the probe failed: health went from %d to %d, more than the %d expected nacks allow", lo, obs, o.expectedNacks)
				}
				o.extraSeen = true
				delta = obs - modelScore
			}
			modelScore += delta
			if modelScore < 0 {
				modelScore = 0
			}
			if modelScore > pl.AwMax-1 {
				modelScore = pl.AwMax - 1
			}
			o.scoreAfter = modelScore
			o.done = true
			if cur == o {
				cur = nil
			}
		}
		// the probe completes at the first valid UDP acknowledgement, otherwise at its deadline; the
		// model is updated in the gap before the next probe's ping can arrive
		switch pr.Direct {
		case "early":
			time.AfterFunc(when("early", scaled)-lat/2, func() { finish(true) })
		default:
			time.AfterFunc(when("mid", scaled)-lat/2, func() { finish(true) })
		}
		time.AfterFunc(scaled-lat/2, func() { finish(false) })
		if pr.Direct != "none" {
			sendAck(x.EP, pg.SeqNo, when(pr.Direct, scaled)-2*lat)
			if pr.DupAck {
				sendAck(x.EP, pg.SeqNo, when(pr.Direct, scaled)-2*lat+5*time.Millisecond)
			}
		}
		for d := 0; d < pr.NackThird; d++ {
			sendNack(stranger, pg.SeqNo, T+T/3+time.Duration(d)*time.Millisecond)
		}
		for _, nz := range pr.Noise {
			var seq uint32
			switch nz.Seq {
			case "unknown":
				seq = pg.SeqNo + 5000
			case "previous":
				seq = ps
			case "helper":
				seq = hs
			case "zero":
				seq = 0
			default:
				seq = 1<<32 - 1
			}
			if seq == pg.SeqNo {
				continue
			}
			from := x.EP
			switch nz.From {
			case "helper":
				if len(helpers) > 0 {
					from = helpers[0].EP
				}
			case "stranger":
				from = stranger
			}
			if nz.Kind == "ack" {
				sendAck(from, seq, when(nz.When, scaled)-2*lat+3*time.Millisecond)
			} else {
				sendNack(from, seq, when(nz.When, scaled)-2*lat+3*time.Millisecond)
			}
		}
		return true
	}
	// TCP fallback script
	x.OnConn = func(from string, c *simnet.Conn) {
		defer c.Close()
		mu.Lock()
		o := cur
		mu.Unlock()
		if o == nil {
			return
		}
		mu.Lock()
		o.tcpDial = true
		pr := pl.Probes[o.idx]
		scaled := o.deadline - o.at
		mu.Unlock()
		buf, _ := puppet.ReadMessage(c, p, time.Second)
		rest, _, _ := wire.LabelSplit(buf)
		sm, err := p.Codec.DecodeStream(rest)
		if err != nil || sm.Type != wire.PingMsg {
			return
		}
		seq := sm.V.(*wire.Ping).SeqNo
		reply := func(s uint32) {
			_, _ = c.Write(p.StreamFrameWith(wire.Encode(wire.AckRespMsg, &wire.Ack{SeqNo: s}), false, nil, 1, "", false))
		}
		since := p.Net.Now() - o.at
		switch pr.TCP {
		case "right":
			time.Sleep(when("mid", scaled) - since + 7*time.Millisecond)
			reply(seq)
		case "wrong":
			time.Sleep(when("mid", scaled) - since + 7*time.Millisecond)
			reply(seq + 1)
		case "late":
			time.Sleep(scaled - since + 80*time.Millisecond)
			reply(seq)
		case "garbage":
			_, _ = c.Write([]byte{wire.AckRespMsg, 0xc1, 0xc1})
		case "stall":
			time.Sleep(scaled - since + 500*time.Millisecond)
		}
	}
	p.Inject("10.0.0.98:7946", parts, puppet.Carrier{Kind: "compound"})
	// ---- drive: wait for each probe of x, check right after its deadline ----
	checked := 0
	var prevDeadline time.Duration = -1
	prevFailed := false
	for i := range pl.Probes {
		var o *obs
		for w := 0; w < 40000; w++ {
			mu.Lock()
			if len(all) > i {
				o = all[i]
			}
			mu.Unlock()
			if o != nil {
				break
			}
			time.Sleep(5 * time.Millisecond)
		}
		if o == nil {
			return fail("probe %d of the subject never happened", i)
		}
		pr := pl.Probes[i]
		scaled := o.deadline - o.at
		// the probe completes at the first valid UDP acknowledgement, otherwise at its deadline
		completeAt := o.deadline
		switch pr.Direct {
		case "early":
			completeAt = o.at + when("early", scaled)
		case "mid":
			completeAt = o.at + when("mid", scaled)
		default:
			for hi := range pr.Relay {
				if pr.Relay[hi] == "mid" {
					mu.Lock()
					if o.asked[hi] {
						completeAt = o.at + when("mid", scaled)
					}
					mu.Unlock()
				}
			}
		}
		if w := completeAt + 20*time.Millisecond - p.Net.Now(); w > 0 {
			time.Sleep(w)
		}
		p.Settle()
		mu.Lock()
		asked := len(o.asked)
		expectedNacks, gotNacks := o.expectedNacks, o.gotNacks
		tcpDial := o.tcpDial
		answered, route, tcpOn, fin := o.answered, o.route, o.tcpOn, o.done
		mu.Unlock()
		if !fin {
			return fail("probe %d: model verdict not available at %v", i, p.Net.Now())
		}
		if pr.Direct != "early" {
			if tcpOn != tcpDial {
				return fail("probe %d: TCP fallback dialled=%v, expected %v (DisableTcpPings=%v, subject PMax=%d)", i, tcpDial, tcpOn, pl.NoTCP, pl.SubjPMax)
			}
			if asked == pl.Helpers {
				labels["all-helpers-asked"] = true
			}
		} else if asked != 0 || tcpDial {
			return fail("probe %d: the direct ack arrived within the probe timeout, yet indirect probes (%d) or a TCP ping (%v) were issued", i, asked, tcpDial)
		}
		d, err := p.Dump()
		if err != nil {
			return fail("%v", err)
		}
		suspect := d["x"].State == wire.StateSuspect
		lab := fmt.Sprintf("route:%s", route)
		labels[lab] = true
		logf("probe %d at %v seq %d scaled %v: %+v -> answered=%v (%s), node says suspect=%v, health %d", i, o.at, o.seq, scaled, pr, answered, route, suspect, p.M.GetHealthScore())
		checkHealth := func() error {
			hs := p.M.GetHealthScore()
			mu.Lock()
			berr, seen := o.boundsErr, o.extraSeen
			cur := modelScore
			mu.Unlock()
			if berr != nil {
				return fmt.Errorf("probe %d: %v\n%v", i, berr, hist)
			}
			if seen {
				labels["extra-nacks-on-failed-probe"] = true
				res.NonTrivial = true
			}
			if hs != cur {
				return fmt.Errorf("probe %d: health score %d, model %d (answered=%v expected nacks %d received %d)\n%v", i, hs, cur, answered, expectedNacks, gotNacks, hist)
			}
			return nil
		}
		// a probe that began before our refutation of the previous failure was injected concerns the old
		// incarnation: its failure is (rightly) ignored as stale
		overlapped := prevFailed && prevDeadline >= 0 && o.at < prevDeadline+25*time.Millisecond
		prevDeadline, prevFailed = o.deadline, !answered
		if overlapped {
			labels["overlapped-with-refutation"] = true
			if suspect && answered {
				return fail("probe %d was answered yet the subject is suspect", i)
			}
			prevFailed = suspect
			checked++
			if suspect {
				p.Inject(x.Addr(), [][]byte{puppet.Claim{Kind: "alive", Node: "x", Inc: d["x"].Inc + 1, Addr: net.ParseIP("10.0.0.50").To4(), Port: 7946, Vsn: x.Vsn}.Leaf()}, puppet.Carrier{})
			}
			if err := checkHealth(); err != nil {
				return fail("%v", err)
			}
			continue
		}
		if answered && suspect {
			return fail("probe %d (seq %d) was answered in time via %s, yet the node suspects the subject\n%v", i, o.seq, route, hist)
		}
		if !answered && !suspect {
			return fail("probe %d (seq %d) got no acknowledgement carrying its sequence number before its deadline (direct %s, relays %v, tcp %s, noise %v), yet the subject is not suspected\n%v", i, o.seq, pr.Direct, pr.Relay, pr.TCP, pr.Noise, hist)
		}
		// helpers probed in between always answer: they pull the score down by one each; account for
		// them by reading the score only as a bound check plus an exact check right after this probe
		hs := p.M.GetHealthScore()
		if hs < 0 || hs > pl.AwMax-1 {
			return fail("health score %d outside [0,%d]", hs, pl.AwMax-1)
		}
		if err := checkHealth(); err != nil {
			return fail("%v", err)
		}
		if len(pr.Noise) > 0 || pr.DupAck || pr.Direct == "late" || contains(pr.Relay, "late") || contains(pr.Relay, "wrongseq") || pr.TCP == "wrong" || pr.TCP == "late" {
			res.NonTrivial = true
		}
		checked++
		// restore: the subject refutes, so the next probe is independent
		if suspect {
			inc := d["x"].Inc + 1
			p.Inject(x.Addr(), [][]byte{puppet.Claim{Kind: "alive", Node: "x", Inc: inc, Addr: net.ParseIP("10.0.0.50").To4(), Port: 7946, Vsn: x.Vsn}.Leaf()}, puppet.Carrier{})
		}
	}
	res.Sub = map[string]int64{"probes_checked": int64(checked)}
	return done()
}

type nil2 struct{}

func (nil2) OnPacket(*simnet.Endpoint, string, []byte)             {}
func (nil2) OnStream(_ *simnet.Endpoint, _ string, c *simnet.Conn) { c.Close() }

func contains(s []string, x string) bool {
	for _, y := range s {
		if y == x {
			return true
		}
	}
	return false
}

func TestProberCorrelation(t *testing.T) {
	theT = t
	vfx.Check(t, genPlan, runPlan)
}
