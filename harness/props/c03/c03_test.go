// C03 — a crashed member is removed by every live node within a bounded time,
// and the probe schedule visits every live peer once per pass.
package c03

import (
	"crypto/sha256"
	"encoding/binary"
	"fmt"
	"sort"
	"sync"
	"testing"
	"testing/synctest"
	"time"

	"pgregory.net/rapid"

	"verif/harness/cluster"
	"verif/harness/vfx"
	"verif/harness/wire"
)

func TestMain(m *testing.M) { vfx.Main(m) }

type Crash struct {
	Node     int
	AtMs     int
	HostDown bool
	Unreach  bool `json:",omitempty"` // host down and the network says so: packet writes towards it fail at the sender
}

type Plan struct {
	Seed          uint64
	Conf          cluster.Conf
	Faults        cluster.Faults
	StartMs       []int
	JoinLagMs     []int
	Crashes       []Crash
	SecondLife    bool // after detection the victims restart under the same name, are listed again, and crash again
	SecondDelayMs int
	Censor        bool // own-evidence mode: suspect/dead hearsay about victims is removed from the wire, push/pull off
}

func genPlan(t *rapid.T) Plan {
	p := Plan{Seed: rapid.Uint64Range(1, 1<<40).Draw(t, "seed")}
	maxN := 8
	if vfx.Thorough() {
		maxN = 14
	}
	p.Conf = cluster.GenConf(t, 3, maxN)
	n := p.Conf.N
	p.Censor = rapid.IntRange(0, 2).Draw(t, "censor") == 0
	if p.Censor {
		p.Conf.PushPullMs = -1
	}
	p.Faults = cluster.Faults{
		LossPct:  rapid.SampledFrom([]int{0, 0, 5, 15}).Draw(t, "loss"),
		DupPct:   rapid.SampledFrom([]int{0, 10}).Draw(t, "dup"),
		MinLatUs: 50,
		MaxLatUs: rapid.SampledFrom([]int{200, 5000, 20000}).Draw(t, "maxlat"),
	}
	p.StartMs = make([]int, n)
	p.JoinLagMs = make([]int, n)
	for i := 1; i < n; i++ {
		p.StartMs[i] = rapid.SampledFrom([]int{0, 0, 100, 900, 2000}).Draw(t, "start")
		p.JoinLagMs[i] = rapid.SampledFrom([]int{0, 5, 300}).Draw(t, "lag")
	}
	k := rapid.IntRange(1, n/2).Draw(t, "k")
	perm := rapid.Permutation(seq(n)).Draw(t, "victims")
	for _, v := range perm[:k] {
		at := rapid.SampledFrom([]int{400, 1200, 2500, 5000, 9000, 9100, 15000, 33000}).Draw(t, "at")
		if v == 0 && at < 3000 {
			at = 5000 // node 0 is everybody's join contact
		}
		p.Crashes = append(p.Crashes, Crash{Node: v, AtMs: at, HostDown: rapid.Bool().Draw(t, "hostdown"), Unreach: rapid.IntRange(0, 3).Draw(t, "unreach") == 0})
	}
	sort.Slice(p.Crashes, func(i, j int) bool { return p.Crashes[i].AtMs < p.Crashes[j].AtMs })
	p.SecondLife = rapid.IntRange(0, 2).Draw(t, "secondlife") == 0
	p.SecondDelayMs = rapid.SampledFrom([]int{0, 300, 3000}).Draw(t, "seconddelay")
	return p
}

func seq(n int) []int {
	s := make([]int, n)
	for i := range s {
		s[i] = i
	}
	return s
}

// Bound re-derives the detection bound from the configuration alone.
func Bound(cf cluster.Conf, maxLat time.Duration) time.Duration {
	P := time.Duration(cf.ProbeIntervalMs) * time.Millisecond
	A := time.Duration(cf.AwarenessMax)
	n := cf.N
	rounds := time.Duration(2*(n-1)+2) * (A + 1) * P
	maxTimeout := time.Duration(cf.SuspicionMaxMult) * cluster.SuspicionTimeoutModel(cf.SuspicionMult, n, P)
	return rounds + maxLat + maxTimeout
}

var theT *testing.T

func runPlan(pl Plan) (res vfx.Result) {
	synctest.Test(theT, func(t *testing.T) { res = run(pl) })
	return
}

func run(pl Plan) (res vfx.Result) {
	labels := map[string]bool{}
	var hist []string
	var hmu sync.Mutex
	logf := func(f string, a ...any) {
		hmu.Lock()
		hist = append(hist, fmt.Sprintf(f, a...))
		hmu.Unlock()
	}
	done := func() vfx.Result {
		res.History = hist
		for l := range labels {
			res.Labels = append(res.Labels, l)
		}
		sort.Strings(res.Labels)
		return res
	}
	fail := func(f string, a ...any) vfx.Result { res.Err = fmt.Errorf(f, a...); return done() }

	c := cluster.New(pl.Seed)
	defer c.ShutdownAll()
	cf := pl.Conf
	n := cf.N
	c.SetFaults(pl.Faults, true)
	victim := map[string]time.Duration{} // name -> crash instant (set when it happens)
	isVictim := map[int]bool{}
	for _, cr := range pl.Crashes {
		isVictim[cr.Node] = true
	}
	cd := cf.NodeConf(0).Codec()
	if pl.Censor {
		var ctr uint64
		var vmu sync.Mutex
		c.Net.Mangle = func(src, dst string, b []byte) []byte {
			ctr++
			var nb [16]byte
			binary.LittleEndian.PutUint64(nb[:], pl.Seed)
			binary.LittleEndian.PutUint64(nb[8:], ctr)
			h := sha256.Sum256(nb[:])
			return cd.FilterPacket(b, h[:12], func(l wire.Leaf) bool {
				vmu.Lock()
				defer vmu.Unlock()
				switch v := l.V.(type) {
				case *wire.Suspect:
					return isVictimName(v.Node, isVictim)
				case *wire.Dead:
					return isVictimName(v.Node, isVictim)
				}
				return false
			})
		}
	}
	nodes := make([]*cluster.Node, n)
	var lmu sync.Mutex
	var wg sync.WaitGroup
	for i := 0; i < n; i++ {
		i := i
		wg.Add(1)
		go func() {
			defer wg.Done()
			time.Sleep(time.Duration(pl.StartMs[i]) * time.Millisecond)
			nd, err := c.Start(cf.NodeConf(i))
			if err != nil {
				logf("start n%d: %v", i, err)
				return
			}
			lmu.Lock()
			nodes[i] = nd
			lmu.Unlock()
			if i == 0 {
				return
			}
			time.Sleep(time.Duration(pl.JoinLagMs[i]) * time.Millisecond)
			for try := 0; try < 5; try++ {
				lmu.Lock()
				via := nodes[0]
				lmu.Unlock()
				if !nd.Running {
					return
				}
				if via != nil {
					_, err := nd.M.Join([]string{via.Addr()})
					logf("%v n%d Join -> %v", c.Net.Now(), i, err)
					if err == nil {
						return
					}
				}
				time.Sleep(500 * time.Millisecond)
			}
		}()
	}
	var lastCrash time.Duration
	for _, cr := range pl.Crashes {
		cr := cr
		if cr.Unreach {
			labels["crash-unreachable"] = true
		}
		wg.Add(1)
		go func() {
			defer wg.Done()
			time.Sleep(time.Duration(cr.AtMs) * time.Millisecond)
			lmu.Lock()
			nd := nodes[cr.Node]
			lmu.Unlock()
			if nd == nil {
				return
			}
			if cr.Unreach {
				c.CrashUnreachable(nd)
			} else {
				c.Crash(nd, cr.HostDown)
			}
			lmu.Lock()
			victim[nd.Name()] = c.Net.Now()
			lmu.Unlock()
			logf("%v n%d crashed (hostDown=%v)", c.Net.Now(), cr.Node, cr.HostDown)
		}()
		if d := time.Duration(cr.AtMs) * time.Millisecond; d > lastCrash {
			lastCrash = d
		}
	}
	maxLat := time.Duration(pl.Faults.MaxLatUs) * time.Microsecond
	B := Bound(cf, maxLat)
	// run: at least until every crash happened, then until every survivor holds every victim as dead/absent
	time.Sleep(lastCrash + time.Second)
	wg.Wait()
	deadline := lastCrash + 2*B + 10*time.Second
	survivors := func() []*cluster.Node {
		var s []*cluster.Node
		for _, nd := range nodes {
			if nd != nil && nd.Running {
				s = append(s, nd)
			}
		}
		return s
	}
	var surv []*cluster.Node
	var end time.Duration
	evaluate := func(since, deadline time.Duration) (int, error) {
		settled := false
		for c.Net.Now() < deadline {
			time.Sleep(time.Second)
			listed := false
			for _, s := range survivors() {
				for _, m := range s.M.Members() {
					if _, v := victim[m.Name]; v {
						listed = true
					}
				}
			}
			if listed {
				continue
			}
			// nobody lists a victim: can it be re-learnt from somebody's table?
			relearn := false
			for _, s := range survivors() {
				d, err := c.Dump(s)
				if err != nil {
					relearn = true
					break
				}
				for name, r := range d {
					if _, v := victim[name]; v && (r.State == wire.StateAlive || r.State == wire.StateSuspect) {
						relearn = true
					}
				}
			}
			if !relearn {
				settled = true
				break
			}
		}
		c.Wait()
		end := c.Net.Now()
		// ---- oracle ----
		checked := 0
		surv = survivors()
		for _, s := range surv {
			evs := s.Rec.Events()
			for vname, tc := range victim {
				var tj time.Duration = -1
				for _, e := range evs {
					if e.Name != vname {
						continue
					}
					at := e.T + s.StartedAt
					if at < since {
						continue
					}
					switch e.Kind {
					case "join":
						tj = at
					case "leave":
						if tj >= 0 {
							from := tj
							if tc > from {
								from = tc
							}
							if at > from+B {
								return 0, fmt.Errorf("%s removed crashed member %s at %v: listed since %v, crash at %v, bound %v exceeded by %v (n=%d, conf %+v)\nhistory %v",
									s.Name(), vname, at, tj, tc, B, at-from-B, n, cf, hist)
							}
							checked++
							tj = -1
						}
					}
				}
				if tj >= 0 {
					from := tj
					if tc > from {
						from = tc
					}
					if end > from+B {
						return 0, fmt.Errorf("%s still lists crashed member %s at the end (%v): listed since %v, crash at %v, bound %v (n=%d, settled=%v, conf %+v)\nhistory %v",
							s.Name(), vname, end, tj, tc, B, n, settled, cf, hist)
					}
					// not yet due: inconclusive for this pair
					labels["pair-not-due"] = true
				}
			}
			for _, m := range s.M.Members() {
				if tc, v := victim[m.Name]; v && end > tc+2*B {
					return 0, fmt.Errorf("%s lists crashed member %s at the end (%v, crash %v, bound %v)", s.Name(), m.Name, end, tc, B)
				}
			}
			if err := cluster.CheckEventLog(s.M, s.Rec, s.Name()); err != nil {
				return 0, fmt.Errorf("event log: %v", err)
			}
		}
		return checked, nil
	}
	checked, err := evaluate(0, deadline)
	if err != nil {
		res.Err = err
		return done()
	}
	// ---- second life: the victims come back under the same name and address, are listed again, and crash again ----
	if pl.SecondLife && len(surv) >= 1 {
		restartAt := c.Net.Now()
		var back []*cluster.Node
		for _, cr := range pl.Crashes {
			nd := nodes[cr.Node]
			if nd == nil || nd.Running {
				continue
			}
			nd.EP.SetDown(false)
			if err := c.Restart(nd); err != nil {
				return fail("restart: %v", err)
			}
			for try := 0; try < 10; try++ {
				if _, err := nd.M.Join([]string{surv[try%len(surv)].Addr()}); err == nil {
					break
				}
				time.Sleep(500 * time.Millisecond)
			}
			back = append(back, nd)
			logf("%v %s restarted and rejoined", c.Net.Now(), nd.Name())
		}
		// wait until every survivor lists them again
		for w := 0; w < 40; w++ {
			all := true
			for _, s := range surv {
				names := s.MemberNames()
				for _, nd := range back {
					found := false
					for _, x := range names {
						if x == nd.Name() {
							found = true
						}
					}
					all = all && found
				}
			}
			if all {
				break
			}
			time.Sleep(time.Second)
		}
		time.Sleep(time.Duration(pl.SecondDelayMs) * time.Millisecond)
		for _, nd := range back {
			c.Crash(nd, false)
			victim[nd.Name()] = c.Net.Now()
			logf("%v %s crashed again", c.Net.Now(), nd.Name())
		}
		labels["second-life"] = true
		n2, err := evaluate(restartAt, c.Net.Now()+2*B+10*time.Second)
		if err != nil {
			res.Err = fmt.Errorf("second life (restart at %v): %v", restartAt, err)
			return done()
		}
		checked += n2
	}
	if _, _, err := c.DecodeTap(0, cd); err != nil {
		return fail("%v", err)
	}
	labels[fmt.Sprintf("n=%d", n)] = true
	labels[fmt.Sprintf("victims=%d", len(victim))] = true
	labels[fmt.Sprintf("censor=%v", pl.Censor)] = true
	labels[fmt.Sprintf("tcp=%v", !cf.DisableTcpPings)] = true
	labels[fmt.Sprintf("loss=%d", pl.Faults.LossPct)] = true
	for _, cr := range pl.Crashes {
		switch {
		case cr.AtMs < 3000:
			labels["crash-during-formation"] = true
		default:
			labels["crash-when-formed"] = true
		}
	}
	res.NonTrivial = len(victim) >= 1 && len(surv) >= 2 && checked >= 2
	res.Sub = map[string]int64{"pairs_checked": int64(checked), "virtual_seconds": int64(end / time.Second)}
	return done()
}

func isVictimName(name string, v map[int]bool) bool {
	var i int
	if _, err := fmt.Sscanf(name, "n%d", &i); err != nil {
		return false
	}
	return v[i]
}

func TestCrashDetection(t *testing.T) {
	theT = t
	vfx.Check(t, genPlan, runPlan)
}
