package c03

import (
	"fmt"
	"sort"
	"sync"
	"testing"
	"testing/synctest"
	"time"

	"pgregory.net/rapid"

	"verif/harness/cluster"
	"verif/harness/vfx"
	"verif/harness/wire"
)

// Probe-schedule sub-oracle of C03, evaluated on fault-free histories (no
// indirect pings exist there, so every ping on the wire is a direct probe):
// a node never probes itself, never probes a peer after it delivered that
// peer's leave event, and while membership is stable its ping sequence splits
// into consecutive permutations of its peers (every peer once per pass), so
// every window of 2(m-1)+1 pings contains every peer.

type SPlan struct {
	Seed    uint64
	Conf    cluster.Conf
	StartMs []int
	Leaves  []struct{ Node, AtMs int }
	DurMs   int
}

func genSPlan(t *rapid.T) SPlan {
	p := SPlan{Seed: rapid.Uint64Range(1, 1<<40).Draw(t, "seed")}
	p.Conf = cluster.GenConf(t, 2, 9)
	p.Conf.ProbeIntervalMs = rapid.SampledFrom([]int{200, 500, 1000}).Draw(t, "pi2")
	p.Conf.ProbeTimeoutMs = p.Conf.ProbeIntervalMs / 2
	n := p.Conf.N
	p.StartMs = make([]int, n)
	for i := 1; i < n; i++ {
		p.StartMs[i] = rapid.SampledFrom([]int{0, 0, 50, 1000}).Draw(t, "start")
	}
	p.DurMs = 5000 + p.Conf.ProbeIntervalMs*(n-1)*rapid.IntRange(4, 9).Draw(t, "passes")
	nl := rapid.IntRange(0, 2).Draw(t, "nleaves")
	for i := 0; i < nl && i < n-1; i++ {
		p.Leaves = append(p.Leaves, struct{ Node, AtMs int }{rapid.IntRange(0, n-1).Draw(t, "lnode"), 5000 + rapid.IntRange(p.DurMs/3, p.DurMs*2/3).Draw(t, "lat")})
	}
	return p
}

func runSPlan(pl SPlan) (res vfx.Result) {
	synctest.Test(theT, func(t *testing.T) { res = runS(pl) })
	return
}

func runS(pl SPlan) (res vfx.Result) {
	labels := map[string]bool{}
	done := func() vfx.Result {
		for l := range labels {
			res.Labels = append(res.Labels, l)
		}
		sort.Strings(res.Labels)
		return res
	}
	fail := func(f string, a ...any) vfx.Result { res.Err = fmt.Errorf(f, a...); return done() }
	c := cluster.New(pl.Seed)
	defer c.ShutdownAll()
	cf := pl.Conf
	n := cf.N
	c.SetQuietLatency(300)
	nodes := make([]*cluster.Node, n)
	var mu sync.Mutex
	var wg sync.WaitGroup
	for i := 0; i < n; i++ {
		i := i
		wg.Add(1)
		go func() {
			defer wg.Done()
			time.Sleep(time.Duration(pl.StartMs[i]) * time.Millisecond)
			nd, err := c.Start(cf.NodeConf(i))
			if err != nil {
				return
			}
			mu.Lock()
			nodes[i] = nd
			mu.Unlock()
			if i > 0 {
				for try := 0; try < 20; try++ {
					mu.Lock()
					via := nodes[0]
					mu.Unlock()
					if via != nil {
						if _, err := nd.M.Join([]string{via.Addr()}); err == nil {
							return
						}
					}
					time.Sleep(100 * time.Millisecond)
				}
			}
		}()
	}
	left := map[int]time.Duration{}
	for _, l := range pl.Leaves {
		l := l
		if _, dup := left[l.Node]; dup {
			continue
		}
		left[l.Node] = time.Duration(l.AtMs) * time.Millisecond
		wg.Add(1)
		go func() {
			defer wg.Done()
			time.Sleep(time.Duration(l.AtMs) * time.Millisecond)
			mu.Lock()
			nd := nodes[l.Node]
			mu.Unlock()
			if nd != nil {
				_ = nd.M.Leave(5 * time.Second)
			}
		}()
	}
	time.Sleep(time.Duration(pl.DurMs+5000) * time.Millisecond)
	wg.Wait()
	c.Wait()
	tap, _, err := c.DecodeTap(0, cf.NodeConf(0).Codec())
	if err != nil {
		return fail("%v", err)
	}
	for _, m := range tap {
		if m.Leaf.Type == wire.IndirectPingMsg || m.Leaf.Type == wire.SuspectMsg {
			return fail("fault-free run produced %v at %v", m.Leaf, m.T)
		}
	}
	// formation instant: last join event anywhere
	var formed time.Duration
	firstLeave := time.Duration(1 << 62)
	for _, nd := range nodes {
		if nd == nil {
			return fail("node did not start")
		}
		for _, e := range nd.Rec.Events() {
			at := e.T + nd.StartedAt
			if e.Kind == "join" && at > formed {
				formed = at
			}
			if e.Kind == "leave" && at < firstLeave {
				firstLeave = at
			}
		}
		if len(nd.M.Members()) != n-len(left) {
			labels["not-fully-formed"] = true
		}
	}
	for _, at := range left {
		if at < firstLeave {
			firstLeave = at
		}
	}
	addrName := map[string]string{}
	for _, nd := range nodes {
		addrName[nd.Addr()] = nd.Name()
	}
	passes := 0
	for _, nd := range nodes {
		// leave events delivered at nd
		// membership of nd over time, from its own event log
		type mev struct {
			at   time.Duration
			name string
			join bool
		}
		var mevs []mev
		for _, e := range nd.Rec.Events() {
			if e.Name == nd.Name() {
				continue
			}
			if e.Kind == "join" || e.Kind == "leave" {
				at := e.T + nd.StartedAt
				if e.Kind == "leave" {
					at++ // a probe sent at the very instant of the leave event is not "after" it
				}
				mevs = append(mevs, mev{at, e.Name, e.Kind == "join"})
			}
		}
		S := map[string]bool{}
		var seg []string
		mi := 0
		flush := func() error {
			defer func() { seg = nil }()
			m := len(S)
			if m < 1 || len(seg) < 2*m {
				return nil
			}
			for off := 0; off <= m; off++ {
				good := true
				for s0 := off; s0+m <= len(seg) && good; s0 += m {
					seen := map[string]bool{}
					for _, x := range seg[s0 : s0+m] {
						if !S[x] {
							good = false
						}
						seen[x] = true
					}
					good = good && len(seen) == m
				}
				if good {
					passes += (len(seg) - off) / m
					return nil
				}
			}
			return fmt.Errorf("%s: while its membership was stable (peers %v) its probe sequence %v does not split into passes that visit every peer exactly once", nd.Name(), keys(S), seg)
		}
		for _, m := range tap {
			pg, ok := m.Leaf.V.(*wire.Ping)
			if !ok || m.Src != nd.Addr() {
				continue
			}
			for mi < len(mevs) && mevs[mi].at <= m.T {
				if err := flush(); err != nil {
					return fail("%v", err)
				}
				if mevs[mi].join {
					S[mevs[mi].name] = true
				} else {
					delete(S, mevs[mi].name)
				}
				mi++
			}
			if pg.Node == nd.Name() || addrName[m.Dst] == nd.Name() {
				return fail("%s probed itself at %v: %+v", nd.Name(), m.T, *pg)
			}
			if addrName[m.Dst] != pg.Node {
				return fail("%s sent a ping naming %s to the address of %s", nd.Name(), pg.Node, addrName[m.Dst])
			}
			if !S[pg.Node] {
				return fail("%s probed %s at %v although it is not a member in its view (event log %v)", nd.Name(), pg.Node, m.T, mevs)
			}
			seg = append(seg, pg.Node)
		}
		if err := flush(); err != nil {
			return fail("%v", err)
		}
	}
	labels[fmt.Sprintf("n=%d", n)] = true
	if len(left) > 0 {
		labels["with-leave"] = true
	}
	res.NonTrivial = passes >= 2*n && !labels["not-fully-formed"]
	res.Sub = map[string]int64{"passes": int64(passes)}
	return done()
}

func TestProbeSchedule(t *testing.T) {
	theT = t
	vfx.Check(t, genSPlan, runSPlan)
}

func keys(m map[string]bool) []string {
	var k []string
	for x := range m {
		k = append(k, x)
	}
	sort.Strings(k)
	return k
}
