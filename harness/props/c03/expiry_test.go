package c03

import (
	"fmt"
	"sort"
	"testing"
	"time"

	"pgregory.net/rapid"

	"verif/harness/puppet"
	"verif/harness/vfx"
	"verif/harness/wire"
)

// Real-time schedule: something happens to a suspected member (a refutation, a
// confirmation, a third party's death notice, nothing) exactly while its
// suspicion timer expires, with the node lock held across the expiry by a slow
// membership callback so that the message is queued on the lock BEFORE the timer
// fires and is served first (a mutex that has been waited on for more than a
// millisecond hands over in arrival order). A bubble cannot express this (time
// stands still while a goroutine waits for a mutex), hence wall-clock time with
// generous margins. Whatever the outcome of that race, the member's NEXT
// failure must still be detected: it is revived, accused again and must be
// removed within its suspicion timeout.

type XPlan struct {
	Seed       uint64
	IntervalMs int
	Mult       int
	Peers      int
	At         string // refute | confirm | dead | none : what is queued behind the held lock before the expiry
	Hold       bool   // false: same messages without the held lock, about 1 ms before the expiry
	SecondVia  string // suspect | pp-suspect | pp-dead : how the second accusation arrives
}

func genXPlan(t *rapid.T) XPlan {
	return XPlan{Seed: rapid.Uint64Range(1, 1<<40).Draw(t, "seed"), IntervalMs: rapid.SampledFrom([]int{40, 60}).Draw(t, "interval"),
		Mult: rapid.IntRange(2, 3).Draw(t, "mult"), Peers: rapid.IntRange(0, 3).Draw(t, "peers"),
		At:   rapid.SampledFrom([]string{"refute", "refute", "refute", "confirm", "dead", "none"}).Draw(t, "at"),
		Hold: rapid.IntRange(0, 4).Draw(t, "hold") != 0, SecondVia: rapid.SampledFrom([]string{"suspect", "suspect", "pp-suspect", "pp-dead"}).Draw(t, "second")}
}

func runX(pl XPlan) (res vfx.Result) {
	labels := map[string]bool{}
	var hist []string
	t0 := time.Now()
	logf := func(f string, a ...any) {
		hist = append(hist, fmt.Sprintf("%v ", time.Since(t0).Round(time.Millisecond))+fmt.Sprintf(f, a...))
	}
	done := func() vfx.Result {
		res.History = hist
		for l := range labels {
			res.Labels = append(res.Labels, l)
		}
		sort.Strings(res.Labels)
		return res
	}
	fail := func(f string, a ...any) vfx.Result { res.Err = fmt.Errorf(f, a...); return done() }
	interval := time.Duration(pl.IntervalMs) * time.Millisecond
	timeout := time.Duration(pl.Mult) * interval // n <= 5: scale 1; SuspicionMaxTimeoutMult 1: min = max
	// the scripted peers answer the node's own probes; the suspicions of interest are injected
	conf := puppet.NodeConf{Name: "n0", IP: "10.0.0.1", Port: 7946, SuspicionMult: pl.Mult, SuspicionMaxMult: 1, ProbeIntervalMs: pl.IntervalMs,
		ProbeTimeoutMs: pl.IntervalMs / 2, IndirectChecks: 0, DisableTcpPings: true, GossipToDeadMs: 3600000, ReclaimMs: 1, GossipIntervalMs: -1}
	p, err := puppet.New(pl.Seed, conf)
	if err != nil {
		return fail("create: %v", err)
	}
	defer p.Shutdown()
	vsn := []uint8{1, 5, 2, 0, 0, 0}
	src := "10.0.9.9:7946"
	send := func(leaves ...[]byte) {
		for _, l := range leaves {
			p.Net.SendFrom(src, p.Addr(), p.Outer(l))
		}
	}
	var parts [][]byte
	for i := 0; i < pl.Peers; i++ {
		pe := p.AddPeer(fmt.Sprintf("p%d", i), fmt.Sprintf("10.0.2.%d", i+1), 7946, vsn)
		parts = append(parts, puppet.Claim{Kind: "alive", Node: pe.Name, Inc: 1, Addr: pe.IPBytes(), Port: 7946, Vsn: vsn}.Leaf())
	}
	x := p.AddPeer("x", "10.0.3.1", 7946, vsn)
	parts = append(parts, puppet.Claim{Kind: "alive", Node: "x", Inc: 1, Addr: x.IPBytes(), Port: 7946, Vsn: vsn}.Leaf())
	send(wire.Compound(parts))
	waitFor := func(d time.Duration, cond func() bool) bool {
		end := time.Now().Add(d)
		for time.Now().Before(end) {
			if cond() {
				return true
			}
			time.Sleep(2 * time.Millisecond)
		}
		return cond()
	}
	listed := func(name string) bool {
		for _, n := range p.M.Members() {
			if n.Name == name {
				return true
			}
		}
		return false
	}
	if !waitFor(10*time.Second, func() bool { return p.M.NumMembers() == pl.Peers+2 }) {
		return fail("setup: %d members, want %d", p.M.NumMembers(), pl.Peers+2)
	}
	// ---- first suspicion ----
	send(puppet.Claim{Kind: "suspect", Node: "x", Inc: 1, From: "acc"}.Leaf())
	suspAt := time.Now()
	logf("suspect x inc 1 sent (timeout %v)", timeout)
	parked := false
	hold := make(chan struct{})
	if pl.Hold {
		// park a membership callback (join of "blocker") under the node lock a third of the way into the suspicion
		time.Sleep(time.Until(suspAt.Add(timeout / 3)))
		p.Rec.Hold("blocker", hold)
		send(puppet.Claim{Kind: "alive", Node: "blocker", Inc: 1, Addr: []byte{10, 0, 9, 8}, Port: 7946, Vsn: vsn}.Leaf())
		parked = waitFor(timeout/3, func() bool { return p.Rec.Holding.Load() != 0 })
		logf("lock held: %v", parked)
	} else {
		time.Sleep(time.Until(suspAt.Add(timeout - time.Millisecond)))
	}
	switch pl.At {
	case "refute":
		send(puppet.Claim{Kind: "alive", Node: "x", Inc: 2, Addr: x.IPBytes(), Port: 7946, Vsn: vsn}.Leaf())
	case "confirm":
		send(puppet.Claim{Kind: "suspect", Node: "x", Inc: 1, From: "p0"}.Leaf())
	case "dead":
		send(puppet.Claim{Kind: "dead", Node: "x", Inc: 1, From: "p0"}.Leaf())
	}
	queuedBefore := time.Since(suspAt) < timeout-2*time.Millisecond
	logf("%s queued (before the expiry: %v)", pl.At, queuedBefore)
	if pl.Hold {
		// let the timer expire behind the lock, then release
		time.Sleep(time.Until(suspAt.Add(timeout + timeout/2 + 30*time.Millisecond)))
		close(hold)
		logf("lock released")
	}
	time.Sleep(timeout/2 + 30*time.Millisecond)
	logf("after the race: x listed=%v", listed("x"))
	if parked && queuedBefore {
		labels["queued-behind-held-lock:"+pl.At] = true
		res.NonTrivial = true
	} else {
		labels["plain:"+pl.At] = true
	}
	// ---- second life and second failure ----
	send(puppet.Claim{Kind: "alive", Node: "x", Inc: 5, Addr: x.IPBytes(), Port: 7946, Vsn: vsn}.Leaf())
	if !waitFor(10*time.Second, func() bool { return listed("x") }) {
		return fail("x re-announced itself at incarnation 5 but is not listed (members %v)", p.MemberNames())
	}
	time.Sleep(5 * time.Millisecond)
	evIdx := p.Rec.Len()
	switch pl.SecondVia {
	case "suspect":
		send(puppet.Claim{Kind: "suspect", Node: "x", Inc: 5, From: "acc"}.Leaf())
	default:
		st := wire.StateSuspect
		if pl.SecondVia == "pp-dead" {
			st = wire.StateDead // a peer's dead row is hearsay: it starts a suspicion
		}
		req := p.StreamFrame(wire.PushPull(false, []wire.PushNodeState{{Name: "x", Addr: x.IPBytes(), Port: 7946, Incarnation: 5, State: st, Vsn: vsn}}, nil), false)
		go func() {
			_, _, c := p.Exchange(p.Obs, req, 2*time.Second)
			if c != nil {
				c.Close()
			}
		}()
	}
	labels["second:"+pl.SecondVia] = true
	second := time.Now()
	logf("x accused again at incarnation 5 via %s", pl.SecondVia)
	// generous: the timeout itself is 80-180 ms; a loaded machine may delay timers and goroutines by seconds
	slack := 20 * time.Second
	gone := waitFor(timeout+slack, func() bool { return !listed("x") })
	logf("x gone=%v after %v", gone, time.Since(second).Round(time.Millisecond))
	if !gone {
		return fail("x was suspected again at incarnation 5 (%s) but is still listed %v later (suspicion timeout %v): its failure is never detected (first suspicion: %s %s, lock held %v)\n  events since: %v",
			pl.SecondVia, time.Since(second).Round(time.Millisecond), timeout, pl.At, map[bool]string{true: "queued before the expiry", false: "after the expiry"}[queuedBefore], parked, p.Rec.Since(evIdx))
	}
	// (a loaded machine may make the node's own probes of x fail as well: only the event grammar is asserted here)
	open := true
	for _, e := range p.Rec.Since(evIdx) {
		if e.Name != "x" {
			continue
		}
		switch e.Kind {
		case "leave":
			if !open {
				return fail("two leave events for x without a join in between: %v", p.Rec.Since(evIdx))
			}
			open = false
		case "join":
			open = true
		}
	}
	return done()
}

func TestExpiryRace(t *testing.T) {
	vfx.Check(t, genXPlan, runX)
}
