// C18 — the CIDR allowlist is enforced on every admission path.
package c18

import (
	"fmt"
	"net"
	"net/netip"
	"sort"
	"strings"
	"testing"
	"testing/synctest"
	"time"

	"pgregory.net/rapid"

	"verif/harness/puppet"
	"verif/harness/vfx"
	"verif/harness/wire"
)

func TestMain(m *testing.M) { vfx.Main(m) }

var cidrSets = [][]string{
	{"10.0.0.0/24"},
	{"10.0.0.0/8"},
	{"10.0.0.1/32", "10.0.0.9/32", "10.0.0.11/32"},
	{"10.0.0.0/24", "fd00::/64"},
	{"10.0.0.0/28", "fd00::5/128"},
	{"0.0.0.0/0"},
	{"10.0.0.0/24", "::/0"},
	{"10.0.0.0/25", "10.0.0.128/25", "172.16.0.0/12"},
}

// address pool (raw bytes as carried in alive messages / push-pull rows)
var addrPool = [][]byte{
	{10, 0, 0, 11},
	{10, 0, 0, 200},
	{10, 0, 1, 5},
	{10, 9, 9, 9},
	{192, 168, 1, 5},
	{172, 16, 3, 3},
	net.ParseIP("10.0.0.11").To16(),   // IPv4-mapped, 16 bytes
	net.ParseIP("192.168.1.5").To16(), // IPv4-mapped, 16 bytes
	net.ParseIP("fd00::5"),
	net.ParseIP("fd00::6"),
	net.ParseIP("fd01::5"),
	{},
	{10, 0, 0},
	{10, 0, 0, 11, 1},
	make([]byte, 15),
	make([]byte, 17),
}

var srcPool = []string{"10.0.0.9:7946", "10.0.0.9:7946", "192.168.1.5:7946", "10.0.1.5:7946", "[fd01::5]:7946", "10.0.0.11:7946"}

type Step struct {
	Kind    string // alive | pp | sleep | other
	Subj    int
	Addr    int
	Port    int    `json:",omitempty"` // 0 = 7946
	IncUp   int    // incarnation = held + IncUp - 1 (0 → held-1)
	Src     int    `json:",omitempty"`
	Carrier string `json:",omitempty"`
	Join    bool   `json:",omitempty"`
	State   int    `json:",omitempty"` // pp row state
	SleepMs int    `json:",omitempty"`
	Other   string `json:",omitempty"` // suspect | dead | left : claims without an address, to move states
}

type Plan struct {
	Seed      uint64
	CIDR      int
	ReclaimMs int
	Init      [3]string // absent | alive | dead | left
	InitV6    bool      `json:",omitempty"` // the subjects start at fd00::5 instead of 10.0.0.11 (when the allowlist admits it)
	Steps     []Step
}

func genPlan(t *rapid.T) Plan {
	p := Plan{Seed: rapid.Uint64Range(1, 1<<40).Draw(t, "seed"), CIDR: rapid.IntRange(0, len(cidrSets)-1).Draw(t, "cidr"),
		ReclaimMs: rapid.SampledFrom([]int{0, 2000, 2000}).Draw(t, "reclaim")}
	for i := range p.Init {
		p.Init[i] = rapid.SampledFrom([]string{"absent", "absent", "alive", "dead", "left"}).Draw(t, "init")
	}
	p.InitV6 = rapid.IntRange(0, 2).Draw(t, "initv6") == 0
	if p.InitV6 {
		// IPv6 members only exist where the allowlist admits fd00::5
		p.CIDR = rapid.SampledFrom([]int{3, 4, 6}).Draw(t, "cidr6")
	}
	p.Steps = rapid.SliceOfN(rapid.Custom(func(t *rapid.T) Step {
		switch rapid.IntRange(0, 9).Draw(t, "k") {
		case 0:
			return Step{Kind: "sleep", SleepMs: rapid.SampledFrom([]int{10, 500, 2100, 5000}).Draw(t, "ms")}
		case 1:
			return Step{Kind: "other", Subj: rapid.IntRange(0, 2).Draw(t, "subj"), Other: rapid.SampledFrom([]string{"suspect", "dead", "left"}).Draw(t, "o")}
		case 2, 3, 4:
			return Step{Kind: "pp", Subj: rapid.IntRange(0, 2).Draw(t, "subj"), Addr: rapid.IntRange(0, len(addrPool)-1).Draw(t, "addr"),
				IncUp: rapid.IntRange(0, 3).Draw(t, "inc"), Join: rapid.Bool().Draw(t, "join"), State: rapid.SampledFrom([]int{0, 0, 0, 1, 2, 3}).Draw(t, "state"),
				Src: rapid.IntRange(0, len(srcPool)-1).Draw(t, "src")}
		}
		return Step{Kind: "alive", Subj: rapid.IntRange(0, 2).Draw(t, "subj"), Addr: rapid.IntRange(0, len(addrPool)-1).Draw(t, "addr"),
			IncUp: rapid.IntRange(0, 3).Draw(t, "inc"), Src: rapid.IntRange(0, len(srcPool)-1).Draw(t, "src"),
			Port:    rapid.SampledFrom([]int{0, 0, 7999}).Draw(t, "port"),
			Carrier: rapid.SampledFrom([]string{"single", "compound", "compress", "compress-compound", "crc", "ping-piggyback"}).Draw(t, "car")}
	}), 1, 14).Draw(t, "steps")
	return p
}

// independent model: net/netip
func allowed(prefixes []netip.Prefix, raw []byte) bool {
	var a netip.Addr
	switch len(raw) {
	case 4:
		a = netip.AddrFrom4([4]byte(raw))
	case 16:
		a = netip.AddrFrom16([16]byte(raw)).Unmap()
	default:
		return false
	}
	for _, p := range prefixes {
		if p.Contains(a) {
			return true
		}
		// a v4 address is also inside a v6 prefix that covers its mapped form
		if a.Is4() && p.Addr().Is6() {
			m := netip.AddrFrom16(a.As16())
			if p.Contains(m) {
				return true
			}
		}
	}
	return false
}

func allowedStr(prefixes []netip.Prefix, s string) bool {
	a, err := netip.ParseAddr(s)
	if err != nil {
		return false
	}
	if a.Is4() {
		b := a.As4()
		return allowed(prefixes, b[:])
	}
	b := a.As16()
	return allowed(prefixes, b[:])
}

var theT *testing.T

func runPlan(pl Plan) (res vfx.Result) {
	synctest.Test(theT, func(t *testing.T) { res = run(pl) })
	return
}

func run(pl Plan) (res vfx.Result) {
	labels := map[string]bool{}
	var hist []string
	done := func() vfx.Result {
		res.History = hist
		for l := range labels {
			res.Labels = append(res.Labels, l)
		}
		sort.Strings(res.Labels)
		return res
	}
	fail := func(f string, a ...any) vfx.Result { res.Err = fmt.Errorf(f, a...); return done() }
	var prefixes []netip.Prefix
	for _, c := range cidrSets[pl.CIDR] {
		prefixes = append(prefixes, netip.MustParsePrefix(c))
	}
	conf := puppet.NodeConf{Name: "n0", IP: "10.0.0.1", Port: 7946, IndirectChecks: 3, CIDRs: cidrSets[pl.CIDR], ReclaimMs: pl.ReclaimMs, GossipToDeadMs: 60000}
	p, err := puppet.New(pl.Seed, conf)
	if err != nil {
		return fail("create: %v", err)
	}
	defer func() { p.Shutdown(); time.Sleep(20 * time.Second) }()
	vsn := []uint8{1, 5, 2, 0, 0, 0}
	h := p.AddPeer("h1", "10.0.0.9", 7946, vsn)
	p.Inject(h.Addr(), [][]byte{puppet.Claim{Kind: "alive", Node: "h1", Inc: 1, Addr: h.IPBytes(), Port: 7946, Vsn: vsn}.Leaf()}, puppet.Carrier{})
	names := []string{"x1", "x2", "x3"}
	// subjects answer probes at the allowed address 10.0.0.11 (shared responder: any name)
	resp := p.AddPeer("x1", "10.0.0.11", 7946, vsn)
	resp.OnLeaf = func(from string, l wire.Leaf) bool {
		if pg, ok := l.V.(*wire.Ping); ok {
			dst := net.JoinHostPort(net.IP(pg.SourceAddr).String(), fmt.Sprint(pg.SourcePort))
			resp.SendLeaves(dst, [][]byte{wire.Encode(wire.AckRespMsg, &wire.Ack{SeqNo: pg.SeqNo})}, puppet.Carrier{})
			return true
		}
		return false
	}
	initAddr := []byte{10, 0, 0, 11}
	if pl.InitV6 {
		initAddr = net.ParseIP("fd00::5")
		labels["ipv6-members"] = true
		resp6 := p.AddPeer("x1v6", "fd00::5", 7946, vsn)
		resp6.OnLeaf = func(from string, l wire.Leaf) bool {
			if pg, ok := l.V.(*wire.Ping); ok {
				dst := net.JoinHostPort(net.IP(pg.SourceAddr).String(), fmt.Sprint(pg.SourcePort))
				resp6.SendLeaves(dst, [][]byte{wire.Encode(wire.AckRespMsg, &wire.Ack{SeqNo: pg.SeqNo})}, puppet.Carrier{})
				return true
			}
			return false
		}
	}
	for i, st := range pl.Init {
		if st == "absent" {
			continue
		}
		p.Inject(h.Addr(), [][]byte{puppet.Claim{Kind: "alive", Node: names[i], Inc: 1, Addr: initAddr, Port: 7946, Vsn: vsn}.Leaf()}, puppet.Carrier{})
		switch st {
		case "dead":
			p.Inject(h.Addr(), [][]byte{puppet.Claim{Kind: "dead", Node: names[i], Inc: 1, From: "h1"}.Leaf()}, puppet.Carrier{})
		case "left":
			p.Inject(h.Addr(), [][]byte{puppet.Claim{Kind: "left", Node: names[i], Inc: 1}.Leaf()}, puppet.Carrier{})
		}
	}
	evIdx := 0
	invariant := func(where string) (map[string]puppet.NodeRec, error) {
		d, err := p.Dump()
		if err != nil {
			return nil, fmt.Errorf("%s: %v", where, err)
		}
		for name, r := range d {
			if name == "n0" {
				continue
			}
			if !allowedStr(prefixes, r.Addr) {
				return nil, fmt.Errorf("%s: table row %v has an address outside the allowlist %v", where, r, cidrSets[pl.CIDR])
			}
		}
		for _, n := range p.M.Members() {
			if n.Name == "n0" {
				continue
			}
			if !allowed(prefixes, n.Addr) {
				return nil, fmt.Errorf("%s: Members() lists %s at %v (%d bytes), outside the allowlist %v", where, n.Name, net.IP(n.Addr), len(n.Addr), cidrSets[pl.CIDR])
			}
		}
		for _, e := range p.Rec.Since(evIdx) {
			if (e.Kind == "join" || e.Kind == "update" || e.Kind == "leave") && e.Name != "n0" && !allowedStr(prefixes, e.Addr) {
				return nil, fmt.Errorf("%s: event %v announces an address outside the allowlist %v", where, e, cidrSets[pl.CIDR])
			}
		}
		evIdx = p.Rec.Len()
		return d, nil
	}
	last, err := invariant("after setup")
	if err != nil {
		return fail("%v", err)
	}
	for i, st := range pl.Steps {
		name := names[st.Subj]
		held := uint32(0)
		pre, present := last[name]
		if present {
			held = pre.Inc
		}
		where := fmt.Sprintf("step %d", i)
		switch st.Kind {
		case "sleep":
			time.Sleep(time.Duration(st.SleepMs) * time.Millisecond)
			p.Settle()
		case "other":
			c := puppet.Claim{Kind: st.Other, Node: name, Inc: held, From: "h1"}
			p.Inject(h.Addr(), [][]byte{c.Leaf()}, puppet.Carrier{})
			where += " " + c.String()
		case "alive", "pp":
			inc := held + uint32(st.IncUp)
			if inc > 0 {
				inc--
			}
			raw := addrPool[st.Addr]
			port := uint16(7946)
			if st.Port != 0 {
				port = uint16(st.Port)
			}
			ok := allowed(prefixes, raw)
			srcOK := true
			src := srcPool[st.Src]
			if st.Kind == "alive" {
				hp, _ := netip.ParseAddrPort(src)
				srcOK = allowedStr(prefixes, hp.Addr().String())
			}
			stname := "absent"
			if present {
				stname = wire.StateName(pre.State)
			}
			lab := fmt.Sprintf("%s|addr-ok=%v|src-ok=%v|prior=%s|len%d", st.Kind, ok, srcOK, stname, len(raw))
			labels[lab] = true
			evBefore := p.Rec.Len()
			if st.Kind == "alive" {
				c := puppet.Claim{Kind: "alive", Node: name, Inc: inc, Addr: raw, Port: port, Meta: []byte("m"), Vsn: vsn}
				where += fmt.Sprintf(" %v from %s via %s", c, src, st.Carrier)
				switch st.Carrier {
				case "ping-piggyback":
					ping := wire.Encode(wire.PingMsg, &wire.Ping{SeqNo: uint32(7000 + i), Node: "n0"})
					p.Inject(src, [][]byte{ping, c.Leaf()}, puppet.Carrier{Kind: "compound"})
				case "crc":
					p.Inject(src, [][]byte{c.Leaf()}, puppet.Carrier{Kind: "single", CRC: true})
				default:
					p.Inject(src, [][]byte{c.Leaf()}, puppet.Carrier{Kind: st.Carrier})
				}
				labels["carrier:"+st.Carrier] = true
			} else {
				c := puppet.Claim{Kind: "pp-" + wire.StateName(st.State), Node: name, Inc: inc, Addr: raw, Port: port, Meta: []byte("m"), Vsn: vsn}
				where += fmt.Sprintf(" %v join=%v", c, st.Join)
				_, _ = p.PushPullTo(h.EP, st.Join, []wire.PushNodeState{h.Self(1, wire.StateAlive, nil), c.Row()}, nil, false)
				labels[fmt.Sprintf("carrier:pp-join=%v", st.Join)] = true
			}
			nontriv := !ok && (st.Kind == "pp" || present || len(raw) == 16 || st.Carrier != "single")
			if nontriv {
				res.NonTrivial = true
				res.NTKeys = append(res.NTKeys, fmt.Sprintf("%s|%s|%d|%d|cidr%d|%v|%d", lab, st.Carrier, st.Addr, st.IncUp, pl.CIDR, st.Join, st.State))
			}
			if st.Kind == "alive" && !srcOK {
				// alive gossip from a disallowed source is ignored entirely
				d2, err := p.Dump()
				if err != nil {
					return fail("%s: %v", where, err)
				}
				ownTimer := last[name].State == wire.StateSuspect && d2[name].State == wire.StateDead && d2[name].Inc == last[name].Inc && d2[name].Addr == last[name].Addr
				if fmt.Sprint(d2[name]) != fmt.Sprint(last[name]) && !ownTimer {
					return fail("%s: alive from a disallowed source changed the record: %v -> %v", where, last[name], d2[name])
				}
				for _, e := range p.Rec.Since(evBefore) {
					if e.Name == name && (e.Kind == "join" || e.Kind == "update" || e.Kind == "leave" || e.Kind == "conflict") {
						return fail("%s: alive from a disallowed source fired %v", where, e)
					}
				}
				res.NonTrivial = true
				labels["disallowed-source"] = true
			}
			if !ok {
				// nothing about the subject may have changed through a disallowed address
				d2, err := p.Dump()
				if err != nil {
					return fail("%s: %v", where, err)
				}
				cur, now := d2[name]
				if now && (!present || cur.Addr != pre.Addr) && !allowedStr(prefixes, cur.Addr) {
					return fail("%s: disallowed address adopted: %v -> %v", where, pre, cur)
				}
			}
		}
		d, err := invariant(where)
		if err != nil {
			return fail("%v", err)
		}
		last = d
		hist = append(hist, where+" -> "+brief(d, names))
	}
	return done()
}

func brief(d map[string]puppet.NodeRec, names []string) string {
	var s []string
	for _, n := range names {
		if r, ok := d[n]; ok {
			s = append(s, fmt.Sprintf("%s:%s@%d@%s", n, wire.StateName(r.State), r.Inc, r.Addr))
		}
	}
	return strings.Join(s, " ")
}

func TestAllowlist(t *testing.T) {
	theT = t
	vfx.Check(t, genPlan, runPlan)
}
