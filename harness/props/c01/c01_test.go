// C01 — stale or weaker membership claims never override newer knowledge.
// One real node (puppet), all peers scripted; rapid-generated histories of
// claims about three subjects, observed through the node's own push/pull
// state dump, Members(), the event delegate and the outbound wire tap.
package c01

import (
	"bytes"
	"fmt"
	"net"
	"sort"
	"strings"
	"testing"
	"testing/synctest"
	"time"

	"pgregory.net/rapid"

	"verif/harness/puppet"
	"verif/harness/vfx"
	"verif/harness/wire"
)

func TestMain(m *testing.M) { vfx.Main(m) }

// ---- plan -------------------------------------------------------------------

type Init struct {
	State string // absent | alive | suspect | dead | left
	Inc   uint32
}

type Step struct {
	Kind string // claim | sleep
	// claim
	Claim   string `json:",omitempty"`
	Subj    int    `json:",omitempty"`
	IncMode string `json:",omitempty"` // held-1 | held | held+1 | zero | one | 2^31 | max
	AltAddr bool   `json:",omitempty"`
	AltPort bool   `json:",omitempty"`
	Meta    int    `json:",omitempty"` // 0 same as initial, 1 other, 2 empty
	Vsn     int    `json:",omitempty"` // 0 same, 1 other valid, 2 short, 3 absent
	From    string `json:",omitempty"` // peer | self | local | unknown
	Carrier string `json:",omitempty"` // single | compound | compress | compress-compound | compound-compress | crc | pp | pp-join
	Drain   bool   `json:",omitempty"`
	// sleep
	SleepMs int `json:",omitempty"`
}

type Plan struct {
	Seed         uint64
	ReclaimMs    int
	GossipDeadMs int
	Silent       bool // subjects do not answer probes (own-evidence suspicion interleaves)
	Init         [3]Init
	Steps        []Step
}

var (
	claimKinds = []string{"alive", "suspect", "dead", "left", "pp-alive", "pp-suspect", "pp-dead", "pp-left"}
	incModes   = []string{"held-1", "held-1", "held", "held", "held", "held+1", "zero", "one", "2^31", "max"}
	pktCars    = []string{"single", "single", "compound", "compress", "compress-compound", "compound-compress", "crc"}
	sleeps     = []int{1, 50, 300, 1000, 3900, 4100, 5000, 5200, 12000, 24500, 31000}
)

func genStep(t *rapid.T) Step {
	if rapid.IntRange(0, 9).Draw(t, "isSleep") < 3 {
		return Step{Kind: "sleep", SleepMs: rapid.SampledFrom(sleeps).Draw(t, "ms")}
	}
	s := Step{Kind: "claim"}
	s.Claim = rapid.SampledFrom(claimKinds).Draw(t, "claim")
	s.Subj = rapid.IntRange(0, 2).Draw(t, "subj")
	s.IncMode = rapid.SampledFrom(incModes).Draw(t, "inc")
	s.AltAddr = rapid.IntRange(0, 4).Draw(t, "altaddr") == 0
	s.AltPort = rapid.IntRange(0, 7).Draw(t, "altport") == 0
	s.Meta = rapid.SampledFrom([]int{0, 0, 1, 2}).Draw(t, "meta")
	s.Vsn = rapid.SampledFrom([]int{0, 0, 0, 1, 2, 3}).Draw(t, "vsn")
	s.From = rapid.SampledFrom([]string{"peer", "peer", "self", "local", "unknown"}).Draw(t, "from")
	if strings.HasPrefix(s.Claim, "pp-") {
		s.Carrier = rapid.SampledFrom([]string{"pp", "pp-join"}).Draw(t, "car")
	} else {
		s.Carrier = rapid.SampledFrom(pktCars).Draw(t, "car")
	}
	s.Drain = rapid.IntRange(0, 3).Draw(t, "drain") == 0
	return s
}

func genPlan(t *rapid.T) Plan {
	p := Plan{Seed: rapid.Uint64Range(1, 1<<40).Draw(t, "seed")}
	p.ReclaimMs = rapid.SampledFrom([]int{0, 5000, 3600000}).Draw(t, "reclaim")
	p.GossipDeadMs = rapid.SampledFrom([]int{2000, 30000}).Draw(t, "gtd")
	p.Silent = rapid.IntRange(0, 3).Draw(t, "silent") == 0
	for i := range p.Init {
		p.Init[i] = Init{State: rapid.SampledFrom([]string{"absent", "alive", "alive", "suspect", "dead", "left"}).Draw(t, "st"),
			Inc: uint32(rapid.IntRange(1, 3).Draw(t, "inc"))}
	}
	p.Steps = rapid.SliceOfN(rapid.Custom(genStep), 1, 14).Draw(t, "steps")
	return p
}

// ---- execution ----------------------------------------------------------------

var (
	vsnSame  = []uint8{1, 5, 2, 0, 0, 0}
	vsnOther = []uint8{1, 5, 3, 0, 0, 0}
)

type rank struct {
	inc uint32
	str int
}

func rankOf(r puppet.NodeRec) rank { return rank{r.Inc, puppet.Strength(r.State)} }
func (a rank) less(b rank) bool {
	return a.inc < b.inc || (a.inc == b.inc && a.str < b.str)
}

type tracker struct {
	firstSeen time.Duration // when the current (inc,state) was first seen in a dump
	prevDump  time.Duration // time of the last dump that did not show it
	phantom   bool          // appeared directly as dead/left from absent
}

func sameRec(a, b puppet.NodeRec) bool { return a == b }

func runPlan(pl Plan) (res vfx.Result) {
	synctest.Test(theT, func(t *testing.T) { res = runInBubble(pl) })
	return
}

var theT *testing.T

func runInBubble(pl Plan) (res vfx.Result) {
	labels := map[string]bool{}
	var hist []string
	logf := func(f string, a ...any) { hist = append(hist, fmt.Sprintf(f, a...)) }
	fail := func(f string, a ...any) vfx.Result {
		res.Err = fmt.Errorf(f, a...)
		res.History = hist
		for l := range labels {
			res.Labels = append(res.Labels, l)
		}
		sort.Strings(res.Labels)
		return res
	}
	conf := puppet.NodeConf{Name: "n0", IP: "10.0.0.1", Port: 7946, IndirectChecks: 3, ReclaimMs: pl.ReclaimMs, GossipToDeadMs: pl.GossipDeadMs}
	p, err := puppet.New(pl.Seed, conf)
	if err != nil {
		return fail("create: %v", err)
	}
	defer func() {
		p.Shutdown()
		time.Sleep(20 * time.Second)
	}()
	helper := p.AddPeer("h1", "10.0.0.9", 7946, vsnSame)
	subj := []*puppet.Peer{
		p.AddPeer("x1", "10.0.0.11", 7946, vsnSame),
		p.AddPeer("x2", "10.0.0.12", 7946, vsnSame),
		p.AddPeer("x3", "10.0.0.13", 7946, vsnSame),
	}
	for _, s := range subj {
		s.AckPings = !pl.Silent
		s.AckTCP = !pl.Silent
	}
	metaOf := func(mode int) []byte {
		switch mode {
		case 1:
			return []byte("other-meta")
		case 2:
			return nil
		}
		return []byte("m0")
	}
	// bring up the helper and the initial views
	p.Inject(helper.Addr(), [][]byte{puppet.Claim{Kind: "alive", Node: "h1", Inc: 1, Addr: helper.IPBytes(), Port: 7946, Vsn: vsnSame}.Leaf()}, puppet.Carrier{})
	for i, in := range pl.Init {
		s := subj[i]
		if in.State == "absent" {
			continue
		}
		p.Inject(s.Addr(), [][]byte{puppet.Claim{Kind: "alive", Node: s.Name, Inc: in.Inc, Addr: s.IPBytes(), Port: 7946, Meta: metaOf(0), Vsn: vsnSame}.Leaf()}, puppet.Carrier{})
		switch in.State {
		case "suspect":
			p.Inject(helper.Addr(), [][]byte{puppet.Claim{Kind: "suspect", Node: s.Name, Inc: in.Inc, From: "h1"}.Leaf()}, puppet.Carrier{})
		case "dead":
			p.Inject(helper.Addr(), [][]byte{puppet.Claim{Kind: "dead", Node: s.Name, Inc: in.Inc, From: "h1"}.Leaf()}, puppet.Carrier{})
		case "left":
			p.Inject(helper.Addr(), [][]byte{puppet.Claim{Kind: "left", Node: s.Name, Inc: in.Inc}.Leaf()}, puppet.Carrier{})
		}
	}

	track := map[string]*tracker{}
	var lastDump map[string]puppet.NodeRec
	var lastDumpT time.Duration
	reclaimOK := map[string]bool{} // subject -> a permitted reclaim claim was injected since the last dump

	// observe takes a dump and checks history monotonicity against the previous one.
	observe := func(where string) (map[string]puppet.NodeRec, error) {
		d, err := p.Dump()
		if err != nil {
			return nil, fmt.Errorf("%s: %v (log tail %v)", where, err, tailLog(p))
		}
		now := p.Net.Now()
		for _, s := range subj {
			cur, ok := d[s.Name]
			prev, had := lastDump[s.Name]
			tr := track[s.Name]
			if !ok {
				delete(track, s.Name)
				continue
			}
			if tr == nil || !had || prev.Inc != cur.Inc || prev.State != cur.State {
				ntr := &tracker{firstSeen: now, prevDump: lastDumpT}
				if !had && puppet.Strength(cur.State) == 2 {
					ntr.phantom = true
				}
				if tr != nil && had && prev.State == cur.State {
					// same state, new incarnation: still a fresh observation
				}
				track[s.Name] = ntr
			}
			if had {
				pr, cr := rankOf(prev), rankOf(cur)
				if cr.less(pr) && !reclaimOK[s.Name] {
					return nil, fmt.Errorf("%s: view of %s moved backwards in the precedence order: %v -> %v", where, s.Name, prev, cur)
				}
				if !pr.less(cr) && !cr.less(pr) && !sameRec(prev, cur) && !reclaimOK[s.Name] {
					// equal rank: dead<->left flips and field changes are both regressions
					return nil, fmt.Errorf("%s: record of %s changed without moving forward: %v -> %v", where, s.Name, prev, cur)
				}
			}
		}
		lastDump, lastDumpT = d, now
		reclaimOK = map[string]bool{}
		return d, nil
	}

	if _, err := observe("after setup"); err != nil {
		return fail("%v", err)
	}
	claims := 0
	for i, st := range pl.Steps {
		if st.Kind == "sleep" {
			time.Sleep(time.Duration(st.SleepMs) * time.Millisecond)
			p.Settle()
			if _, err := observe(fmt.Sprintf("step %d sleep %dms", i, st.SleepMs)); err != nil {
				return fail("%v", err)
			}
			logf("step %d: sleep %dms -> %v", i, st.SleepMs, brief(lastDump, subj))
			continue
		}
		s := subj[st.Subj]
		drained := false
		if avoidTick(p) {
			if _, err := observe(fmt.Sprintf("step %d tick avoidance", i)); err != nil {
				return fail("%v", err)
			}
		}
		if st.Drain {
			drained = p.DrainQueue(2, 40)
			avoidTick(p)
			if _, err := observe(fmt.Sprintf("step %d drain", i)); err != nil {
				return fail("%v", err)
			}
		}
		pre, present := lastDump[s.Name]
		// The dump above is the "pre" view: nothing ran since (settled).
		held := uint32(0)
		if present {
			held = pre.Inc
		}
		var inc uint32
		switch st.IncMode {
		case "held-1":
			if held == 0 {
				inc = 0
			} else {
				inc = held - 1
			}
		case "held":
			inc = held
		case "held+1":
			inc = held + 1
		case "zero":
			inc = 0
		case "one":
			inc = 1
		case "2^31":
			inc = 1 << 31
		case "max":
			inc = 1<<32 - 1
		}
		c := puppet.Claim{Kind: st.Claim, Node: s.Name, Inc: inc, Addr: s.IPBytes(), Port: 7946, Meta: metaOf(st.Meta)}
		if st.AltAddr {
			c.Addr = []byte{10, 0, 0, byte(111 + st.Subj)}
		}
		if st.AltPort {
			c.Port = 7999
		}
		switch st.Vsn {
		case 0:
			c.Vsn = vsnSame
		case 1:
			c.Vsn = vsnOther
		case 2:
			c.Vsn = []uint8{1, 5}
		}
		switch st.From {
		case "peer":
			c.From = "h1"
		case "self":
			c.From = s.Name
		case "local":
			c.From = "n0"
		default:
			c.From = "nobody"
		}
		if c.Kind == "left" {
			c.From = s.Name
		}
		if c.Kind == "dead" && c.From == s.Name {
			c.Kind = "left" // a dead claim signed by the subject is a leave
		}
		// classification
		rel := "absent"
		if present {
			cr := rank{inc, puppet.ClaimStrength(c.Kind)}
			pr := rankOf(pre)
			switch {
			case cr.less(pr):
				rel = "stale"
			case pr.less(cr):
				rel = "newer"
			default:
				rel = "equal"
			}
		}
		addrDiffers := present && (net.IP(c.Addr).String() != pre.Addr || c.Port != pre.Port)
		isAliveKind := c.Kind == "alive" || c.Kind == "pp-alive"
		now := p.Net.Now()
		age := "n/a"
		permittedReclaim := false
		if present && puppet.Strength(pre.State) == 2 {
			tr := track[s.Name]
			maxAge := now - tr.prevDump
			minAge := now - tr.firstSeen
			rc := time.Duration(pl.ReclaimMs) * time.Millisecond
			switch {
			case rc == 0:
				age = "reclaim-off"
			case minAge > rc:
				age = "old"
			case maxAge <= rc:
				age = "young"
			default:
				age = "ambiguous"
			}
			if isAliveKind && addrDiffers {
				if pre.State == wire.StateLeft || (rc > 0 && (maxAge > rc || tr.phantom)) {
					permittedReclaim = true
				}
			}
		}
		if permittedReclaim {
			reclaimOK[s.Name] = true
			labels["permitted-reclaim"] = true
		}
		evIdx := p.Rec.Len()
		tapIdx := p.TapLen()
		preMembers := p.MemberView()
		src := helper.Addr()
		if st.From == "self" {
			src = s.Addr()
		}
		car := puppet.Carrier{Kind: st.Carrier}
		if st.Carrier == "crc" {
			car = puppet.Carrier{Kind: "single", CRC: true}
		}
		if err := p.InjectClaim(c, car, src, helper.EP); err != nil {
			// a rejected push/pull (error reply) is a legitimate outcome
			logf("step %d: push/pull rejected: %v", i, err)
		}
		claims++
		post, err := observe(fmt.Sprintf("step %d %v (%s vs %v)", i, c, rel, pre))
		if err != nil {
			return fail("%v", err)
		}
		cur, still := post[s.Name]
		logf("step %d: %v [%s, prior %v] -> %v", i, c, rel, pre, cur)
		stname := "absent"
		if present {
			stname = wire.StateName(pre.State)
		}
		lab := fmt.Sprintf("%s|%s|%s", stname, c.Kind, rel)
		labels[lab] = true
		labels["carrier:"+st.Carrier] = true
		if present {
			labels["age:"+age] = true
		}
		if present && (rel == "stale" || rel == "equal") && !permittedReclaim {
			res.NonTrivial = true
			res.NTKeys = append(res.NTKeys, fmt.Sprintf("%s|%s|%s|%v|%v|%d|%d|%s|%s|%s|%v", lab, st.Carrier, st.IncMode, st.AltAddr, st.AltPort, st.Meta, st.Vsn, st.From, age, pre.Addr, pl.Silent))
			// 1. the record is unchanged, or moved forward on the node's own evidence only
			evs := p.Rec.Since(evIdx)
			out, _, derr := p.OutboundSince(tapIdx)
			if derr != nil {
				return fail("step %d: %v", i, derr)
			}
			ownTransition := false
			if still && !sameRec(pre, cur) {
				// rank must have increased at the same incarnation with identical fields,
				// and the node must have announced it in its own name
				ok := cur.Inc == pre.Inc && puppet.Strength(cur.State) > puppet.Strength(pre.State) &&
					cur.Addr == pre.Addr && cur.Port == pre.Port && cur.Meta == pre.Meta && cur.Vsn == pre.Vsn
				announced := false
				for _, o := range out {
					switch v := o.Leaf.V.(type) {
					case *wire.Suspect:
						if v.Node == s.Name && v.From == "n0" && v.Incarnation == cur.Inc && cur.State == wire.StateSuspect {
							announced = true
						}
					case *wire.Dead:
						if v.Node == s.Name && v.From == "n0" && v.Incarnation == cur.Inc && cur.State == wire.StateDead {
							announced = true
						}
					}
				}
				// an equal-rank suspect confirmation may legitimately shorten the timer to "now"
				if !ok || (!announced && !queuedLater(p, s.Name, cur)) {
					return fail("step %d: %s claim %v changed the record of %s: %v -> %v (events %v)", i, rel, c, s.Name, pre, cur, evs)
				}
				ownTransition = true
				labels["own-transition-during-claim"] = true
			}
			if !still {
				if puppet.Strength(pre.State) != 2 {
					return fail("step %d: %s claim %v made the live record of %s disappear (was %v)", i, rel, c, s.Name, pre)
				}
				labels["reaped-during-claim"] = true
			}
			// 2. Members() entry unchanged
			postMembers := p.MemberView()
			if !ownTransition && preMembers[s.Name] != postMembers[s.Name] {
				return fail("step %d: %s claim %v changed Members() entry of %s: %q -> %q", i, rel, c, s.Name, preMembers[s.Name], postMembers[s.Name])
			}
			// 3. no event about the subject
			for _, e := range evs {
				if e.Name == s.Name && (e.Kind == "join" || e.Kind == "update" || (e.Kind == "leave" && !ownTransition)) {
					return fail("step %d: %s claim %v fired event %v (prior %v)", i, rel, c, e, pre)
				}
			}
			// 4. nothing is re-gossiped (only meaningful on a drained queue and for stale
			//    claims: an equal-rank suspicion by a new confirmer may be passed on; push/pull
			//    rows in state suspect/dead are converted to a suspicion signed by the local
			//    node, which is indistinguishable from its own probing)
			if drained && rel == "stale" && c.From != "n0" {
				time.Sleep(2*p.MC.GossipInterval + time.Millisecond)
				p.Settle()
				if c.Kind != "pp-suspect" && c.Kind != "pp-dead" {
					out2, _, derr := p.OutboundSince(tapIdx)
					if derr != nil {
						return fail("step %d: %v", i, derr)
					}
					for _, o := range out2 {
						if sameClaimOnWire(o.Leaf, c) {
							return fail("step %d: stale claim %v (prior %v) was re-gossiped to %s at %v", i, c, pre, o.Dst, o.T)
						}
					}
					labels["regossip-checked"] = true
				}
				if _, err := observe(fmt.Sprintf("step %d after regossip window", i)); err != nil {
					return fail("%v", err)
				}
			}
		}
	}
	if p.Rec.Overlaps.Load() != 0 {
		return fail("event callbacks overlapped %d times", p.Rec.Overlaps.Load())
	}
	res.Sub = map[string]int64{"claims": int64(claims)}
	res.History = hist
	for l := range labels {
		res.Labels = append(res.Labels, l)
	}
	sort.Strings(res.Labels)
	return res
}

// queuedLater: a suspect->dead transition caused by a confirmation that drove
// the timer to zero announces itself through the broadcast queue; it may not
// have left the node yet within the settle window.
func queuedLater(p *puppet.Puppet, name string, cur puppet.NodeRec) bool {
	idx := p.TapLen()
	time.Sleep(3*p.MC.GossipInterval + time.Millisecond)
	p.Settle()
	out, _, err := p.OutboundSince(idx)
	if err != nil {
		return false
	}
	for _, o := range out {
		switch v := o.Leaf.V.(type) {
		case *wire.Dead:
			if v.Node == name && v.From == "n0" && v.Incarnation == cur.Inc && cur.State == wire.StateDead {
				return true
			}
		case *wire.Suspect:
			if v.Node == name && v.From == "n0" && v.Incarnation == cur.Inc && cur.State == wire.StateSuspect {
				return true
			}
		}
	}
	return false
}

// avoidTick makes sure no probe tick (the only moment at which dead records
// are reaped and probes start) falls into the next few milliseconds, so that a
// claim and the dumps around it are not interleaved with a reaping pass. The
// tick phase is read off the wire: every probe ping leaves at a tick.
func avoidTick(p *puppet.Puppet) bool {
	return p.AvoidProbeTick(12 * time.Millisecond)
}

func sameClaimOnWire(l wire.Leaf, c puppet.Claim) bool {
	switch v := l.V.(type) {
	case *wire.Alive:
		return (c.Kind == "alive" || c.Kind == "pp-alive") && v.Node == c.Node && v.Incarnation == c.Inc &&
			bytes.Equal(v.Addr, c.Addr) && v.Port == c.Port && bytes.Equal(v.Meta, c.Meta)
	case *wire.Suspect:
		return c.Kind == "suspect" && v.Node == c.Node && v.Incarnation == c.Inc && v.From == c.From
	case *wire.Dead:
		switch c.Kind {
		case "dead":
			return v.Node == c.Node && v.Incarnation == c.Inc && v.From == c.From
		case "left", "pp-left":
			return v.Node == c.Node && v.Incarnation == c.Inc && v.From == c.Node
		}
	}
	return false
}

func brief(d map[string]puppet.NodeRec, subj []*puppet.Peer) string {
	var s []string
	for _, x := range subj {
		if r, ok := d[x.Name]; ok {
			s = append(s, fmt.Sprintf("%s:%s@%d", x.Name, wire.StateName(r.State), r.Inc))
		} else {
			s = append(s, x.Name+":absent")
		}
	}
	return strings.Join(s, " ")
}

func tailLog(p *puppet.Puppet) []string {
	l := p.Log.Lines
	if len(l) > 6 {
		l = l[len(l)-6:]
	}
	return l
}

func TestStaleClaims(t *testing.T) {
	theT = t
	vfx.Check(t, genPlan, runPlan)
}
