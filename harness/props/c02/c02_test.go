// C02 — a running node always defends itself: refutation outranks every
// accusation. One real node; a scripted peer delivers sequences of
// accusations about the node itself, interleaved with UpdateNode and sleeps.
package c02

import (
	"bytes"
	"fmt"
	"sort"
	"strings"
	"testing"
	"testing/synctest"
	"time"

	"pgregory.net/rapid"

	"verif/harness/puppet"
	"verif/harness/simnet"
	"verif/harness/vfx"
	"verif/harness/wire"
)

func TestMain(m *testing.M) { vfx.Main(m) }

type Step struct {
	Kind    string // accuse | update | sleep
	Acc     string `json:",omitempty"` // suspect | dead | forged-leave | alive | pp-suspect | pp-dead | pp-left | pp-alive
	IncMode string `json:",omitempty"` // zero | cur-1 | cur | cur+1 | cur+2 | cur+1000 | 2^31 | max-1
	Meta    int    `json:",omitempty"` // alive: 0 same, 1 different, 2 empty
	Vsn     int    `json:",omitempty"` // alive: 0 same, 1 different valid, 2 absent
	Accuser string `json:",omitempty"` // peer | unknown | self
	Carrier string `json:",omitempty"` // single | compound | compress | crc | ping-piggyback | pp | pp-join
	SleepMs int    `json:",omitempty"`
	NewMeta string `json:",omitempty"`
}

type Plan struct {
	Seed     uint64
	PV       uint8
	StartInc int // extra UpdateNode calls at the start so the incarnation is not 1
	Meta     string
	Steps    []Step
	// StartupInc > 0: while Create is still running (inside the delegate's NodeMeta call; the listeners are already
	// up) a peer's memory of an earlier life of this node arrives: alive{self, incarnation StartupInc, other metadata}
	StartupInc uint32 `json:",omitempty"`
}

func genStep(t *rapid.T) Step {
	switch rapid.IntRange(0, 9).Draw(t, "k") {
	case 0:
		return Step{Kind: "sleep", SleepMs: rapid.SampledFrom([]int{1, 100, 250, 1000, 3000}).Draw(t, "ms")}
	case 1:
		return Step{Kind: "update", NewMeta: rapid.SampledFrom([]string{"", "m1", "m2", strings.Repeat("z", 512)}).Draw(t, "meta")}
	}
	s := Step{Kind: "accuse"}
	s.Acc = rapid.SampledFrom([]string{"suspect", "suspect", "dead", "dead", "forged-leave", "alive", "alive", "pp-suspect", "pp-dead", "pp-left", "pp-alive"}).Draw(t, "acc")
	s.IncMode = rapid.SampledFrom([]string{"zero", "cur-1", "cur", "cur", "cur+1", "cur+2", "cur+1000", "2^31", "max-1"}).Draw(t, "inc")
	s.Meta = rapid.SampledFrom([]int{0, 0, 1, 2}).Draw(t, "meta")
	s.Vsn = rapid.SampledFrom([]int{0, 0, 1, 2}).Draw(t, "vsn")
	s.Accuser = rapid.SampledFrom([]string{"peer", "peer", "unknown", "self"}).Draw(t, "accuser")
	if strings.HasPrefix(s.Acc, "pp-") {
		s.Carrier = rapid.SampledFrom([]string{"pp", "pp-join"}).Draw(t, "car")
	} else {
		s.Carrier = rapid.SampledFrom([]string{"single", "compound", "compress", "crc", "ping-piggyback"}).Draw(t, "car")
	}
	return s
}

func genPlan(t *rapid.T) Plan {
	return Plan{
		Seed:       rapid.Uint64Range(1, 1<<40).Draw(t, "seed"),
		PV:         uint8(rapid.SampledFrom([]int{2, 2, 3, 4, 5}).Draw(t, "pv")),
		StartInc:   rapid.IntRange(0, 3).Draw(t, "startinc"),
		Meta:       rapid.SampledFrom([]string{"", "m0"}).Draw(t, "meta0"),
		Steps:      rapid.SliceOfN(rapid.Custom(genStep), 1, 12).Draw(t, "steps"),
		StartupInc: rapid.SampledFrom([]uint32{0, 0, 0, 1, 2, 7, 1 << 20}).Draw(t, "startup"),
	}
}

var theT *testing.T

func runPlan(pl Plan) (res vfx.Result) {
	synctest.Test(theT, func(t *testing.T) { res = run(pl) })
	return
}

func run(pl Plan) (res vfx.Result) {
	labels := map[string]bool{}
	var hist []string
	done := func() vfx.Result {
		res.History = hist
		for l := range labels {
			res.Labels = append(res.Labels, l)
		}
		sort.Strings(res.Labels)
		return res
	}
	fail := func(f string, a ...any) vfx.Result {
		res.Err = fmt.Errorf(f, a...)
		return done()
	}
	conf := puppet.NodeConf{Name: "n0", IP: "10.0.0.1", Port: 7946, IndirectChecks: 3, ProtocolVersion: pl.PV, Meta: []byte(pl.Meta)}
	p, err := puppet.NewOnPre(simnet.New(pl.Seed), pl.Seed, conf, func(p *puppet.Puppet) {
		if pl.StartupInc == 0 {
			return
		}
		p.Rec.OnNodeMeta = func() {
			c := puppet.Claim{Kind: "alive", Node: "n0", Inc: pl.StartupInc, Addr: []byte{10, 0, 0, 1}, Port: 7946, Meta: []byte("previous-life"), Vsn: conf.Vsn()}
			p.Inject("10.0.0.9:7946", [][]byte{c.Leaf()}, puppet.Carrier{})
		}
	})
	if err != nil {
		return fail("create: %v", err)
	}
	if pl.StartupInc > 0 {
		labels["claim-during-startup"] = true
	}
	defer func() {
		p.Shutdown()
		time.Sleep(20 * time.Second)
	}()
	h := p.AddPeer("h1", "10.0.0.9", 7946, []uint8{1, 5, 2, 0, 0, 0})
	p.Inject(h.Addr(), [][]byte{puppet.Claim{Kind: "alive", Node: "h1", Inc: 1, Addr: h.IPBytes(), Port: 7946, Vsn: h.Vsn}.Leaf()}, puppet.Carrier{})
	meta := pl.Meta
	for i := 0; i < pl.StartInc; i++ {
		if err := p.M.UpdateNode(5 * time.Second); err != nil {
			return fail("UpdateNode: %v", err)
		}
	}
	self := func() (puppet.NodeRec, error) {
		d, err := p.Dump()
		if err != nil {
			return puppet.NodeRec{}, err
		}
		r, ok := d["n0"]
		if !ok {
			return r, fmt.Errorf("the node's own record is missing from its table: %v", d)
		}
		return r, nil
	}
	invariant := func(where string) (puppet.NodeRec, error) {
		r, err := self()
		if err != nil {
			return r, fmt.Errorf("%s: %v", where, err)
		}
		if r.State != wire.StateAlive {
			return r, fmt.Errorf("%s: the node records itself as %s: %v", where, wire.StateName(r.State), r)
		}
		found := false
		for _, n := range p.M.Members() {
			if n.Name == "n0" {
				found = true
			}
		}
		if !found {
			return r, fmt.Errorf("%s: Members() %v does not list the local node", where, p.MemberNames())
		}
		ln := p.M.LocalNode()
		if ln.Name != "n0" || int(ln.State) != wire.StateAlive {
			return r, fmt.Errorf("%s: LocalNode() = %s state %d", where, ln.Name, ln.State)
		}
		if hs := p.M.GetHealthScore(); hs < 0 || hs > 7 {
			return r, fmt.Errorf("%s: health score %d outside [0,7]", where, hs)
		}
		return r, nil
	}
	cur, err := invariant("after setup")
	if err != nil {
		return fail("%v", err)
	}
	if pl.StartupInc == 0 && int(cur.Inc) != 1+pl.StartInc {
		return fail("after setup: own incarnation %d, expected %d", cur.Inc, 1+pl.StartInc)
	}
	if pl.StartupInc > 0 && cur.Inc <= pl.StartupInc {
		return fail("after setup: own incarnation %d is not above the claim (incarnation %d, other metadata) that arrived during start-up", cur.Inc, pl.StartupInc)
	}
	selfIP := []byte{10, 0, 0, 1}
	ownVsn := conf.Vsn()
	nAcc := 0
	for i, st := range pl.Steps {
		if cur.Inc == 1<<32-1 {
			// the counter sits at the largest representable value: whatever follows
			// wraps around, which is outside the property's quantifier
			labels["stopped-at-max-incarnation"] = true
			break
		}
		switch st.Kind {
		case "sleep":
			time.Sleep(time.Duration(st.SleepMs) * time.Millisecond)
			p.Settle()
			r, err := invariant(fmt.Sprintf("step %d sleep", i))
			if err != nil {
				return fail("%v", err)
			}
			if r.Inc < cur.Inc {
				return fail("step %d: own incarnation decreased %d -> %d", i, cur.Inc, r.Inc)
			}
			cur = r
			continue
		case "update":
			p.Rec.SetMeta([]byte(st.NewMeta))
			meta = st.NewMeta
			if err := p.M.UpdateNode(5 * time.Second); err != nil {
				return fail("step %d: UpdateNode: %v", i, err)
			}
			p.Settle()
			r, err := invariant(fmt.Sprintf("step %d update", i))
			if err != nil {
				return fail("%v", err)
			}
			if r.Inc <= cur.Inc {
				return fail("step %d: UpdateNode did not raise the incarnation (%d -> %d)", i, cur.Inc, r.Inc)
			}
			if r.Meta != st.NewMeta {
				return fail("step %d: own metadata %q after UpdateNode, want %q", i, r.Meta, st.NewMeta)
			}
			cur = r
			labels["update"] = true
			hist = append(hist, fmt.Sprintf("step %d: UpdateNode(meta %d bytes) -> inc %d", i, len(st.NewMeta), r.Inc))
			continue
		}
		var inc uint64
		switch st.IncMode {
		case "zero":
			inc = 0
		case "cur-1":
			inc = uint64(cur.Inc) - 1
		case "cur":
			inc = uint64(cur.Inc)
		case "cur+1":
			inc = uint64(cur.Inc) + 1
		case "cur+2":
			inc = uint64(cur.Inc) + 2
		case "cur+1000":
			inc = uint64(cur.Inc) + 1000
		case "2^31":
			inc = 1 << 31
		case "max-1":
			inc = 1<<32 - 2
		}
		if inc >= 1<<32-1 {
			labels["skipped-max-incarnation"] = true
			continue // the largest representable incarnation is outside the property's quantifier
		}
		accuser := "h1"
		switch st.Accuser {
		case "unknown":
			accuser = "nobody"
		case "self":
			accuser = "n0"
		}
		c := puppet.Claim{Node: "n0", Inc: uint32(inc), From: accuser}
		if strings.HasPrefix(st.Acc, "pp-") {
			// a peer's table row about us carries what it last learnt about us
			c.Addr, c.Port, c.Meta, c.Vsn = selfIP, 7946, []byte(meta), ownVsn
		}
		effective := false
		switch st.Acc {
		case "suspect", "pp-suspect":
			c.Kind = st.Acc
			effective = uint32(inc) >= cur.Inc
		case "dead", "pp-dead":
			c.Kind = st.Acc
			if st.Acc == "dead" && accuser == "n0" {
				c.Kind = "left"
			}
			effective = uint32(inc) >= cur.Inc
		case "forged-leave", "pp-left":
			c.Kind = "left"
			if st.Acc == "pp-left" {
				c.Kind = "pp-left"
			}
			effective = uint32(inc) >= cur.Inc
		case "alive", "pp-alive":
			c.Kind = st.Acc
			c.Addr, c.Port = selfIP, 7946
			c.Meta = []byte(meta)
			c.Vsn = ownVsn
			differs := false
			switch st.Meta {
			case 1:
				c.Meta = []byte(meta + "-x")
				differs = true
			case 2:
				if meta != "" {
					differs = true
				}
				c.Meta = nil
			}
			switch st.Vsn {
			case 1:
				c.Vsn = []uint8{1, 5, conf.PV(), 0, 1, 1}
				differs = true
			case 2:
				c.Vsn = nil
				differs = true
				if st.Acc == "pp-alive" {
					// a push/pull row without a version vector fails the protocol check
					// of the exchange as a whole; nothing is learnt from it
					differs = false
				}
			}
			effective = uint32(inc) > cur.Inc || (uint32(inc) == cur.Inc && differs)
			if st.Acc == "pp-alive" && st.Vsn == 2 {
				effective = false
			}
			if st.Acc == "pp-alive" && st.Vsn == 1 {
				// delegate versions 1..1 against our 0..0: the version check rejects the exchange
				effective = false
			}
		}
		tapIdx := p.TapLen()
		var ierr error
		switch st.Carrier {
		case "ping-piggyback":
			ping := wire.Encode(wire.PingMsg, &wire.Ping{SeqNo: uint32(9000 + i), Node: "n0", SourceAddr: h.IPBytes(), SourcePort: 7946, SourceNode: "h1"})
			p.Inject(h.Addr(), [][]byte{ping, c.Leaf()}, puppet.Carrier{Kind: "compound"})
		case "crc":
			ierr = p.InjectClaim(c, puppet.Carrier{Kind: "single", CRC: true}, h.Addr(), h.EP)
		default:
			ierr = p.InjectClaim(c, puppet.Carrier{Kind: st.Carrier}, h.Addr(), h.EP)
		}
		nAcc++
		r, err := invariant(fmt.Sprintf("step %d after %v", i, c))
		if err != nil {
			return fail("%v (inject err %v)", err, ierr)
		}
		if r.Inc < cur.Inc {
			return fail("step %d: own incarnation decreased %d -> %d after %v", i, cur.Inc, r.Inc, c)
		}
		hist = append(hist, fmt.Sprintf("step %d: %v via %s (own inc %d, effective=%v) -> own inc %d", i, c, st.Carrier, cur.Inc, effective, r.Inc))
		labels[fmt.Sprintf("%s|%s|%s", st.Acc, st.IncMode, st.Carrier)] = true
		if effective {
			res.NonTrivial = true
			res.NTKeys = append(res.NTKeys, fmt.Sprintf("%s|%s|%s|%d|%d|%s|pv%d", st.Acc, st.IncMode, st.Carrier, st.Meta, st.Vsn, st.Accuser, pl.PV))
			labels["effective:"+st.Acc] = true
			if r.Inc <= uint32(inc) {
				return fail("step %d: after %v (own incarnation was %d) the node's incarnation is %d, not above the accusation", i, c, cur.Inc, r.Inc)
			}
			// the refutation must reach the wire before anything else happens
			seen := false
			for w := 0; w < 6 && !seen; w++ {
				out, _, derr := p.OutboundSince(tapIdx)
				if derr != nil {
					return fail("step %d: %v", i, derr)
				}
				for _, o := range out {
					if a, ok := o.Leaf.V.(*wire.Alive); ok && a.Node == "n0" && a.Incarnation == r.Inc {
						seen = true
						if !bytes.Equal(a.Meta, []byte(meta)) {
							return fail("step %d: refutation carries metadata %q, the node's metadata is %q", i, a.Meta, meta)
						}
					}
				}
				if !seen {
					time.Sleep(p.MC.GossipInterval)
					p.Settle()
				}
			}
			if !seen {
				return fail("step %d: after %v the node raised its incarnation to %d but no alive message with that incarnation left the node within 6 gossip intervals", i, c, r.Inc)
			}
			r2, err := invariant(fmt.Sprintf("step %d after refutation window", i))
			if err != nil {
				return fail("%v", err)
			}
			r = r2
		}
		cur = r
	}
	if p.Rec.Overlaps.Load() != 0 {
		return fail("event callbacks overlapped")
	}
	for _, e := range p.Rec.Events() {
		if e.Name == "n0" && e.Kind == "leave" {
			return fail("the node delivered a leave event about itself: %v", e)
		}
	}
	res.Sub = map[string]int64{"accusations": int64(nAcc)}
	return done()
}

func TestSelfDefence(t *testing.T) {
	theT = t
	vfx.Check(t, genPlan, runPlan)
}
