package c02

import (
	"fmt"
	"net"
	"sync"
	"sync/atomic"
	"testing"
	"time"

	"pgregory.net/rapid"

	"verif/harness/puppet"
	"verif/harness/realnet"
	"verif/harness/vfx"
	"verif/harness/wire"
)

// Restart under fire, on real sockets and with the real scheduler: a node's listeners are running before Create has
// announced the node to itself, and peers that remember an earlier life of the name keep gossiping about it. A flood of
// alive claims about the node (its own address, other metadata, ever increasing incarnations - what a restarted node
// with a lower incarnation than peers remember is sent) runs against the port while the node is created again and
// again. Whatever the interleaving, once Create has returned the node must list itself as a live member.

type StartupPlan struct {
	Seed     uint64
	Creates  int
	Senders  int
	StartInc uint32
}

func genStartupPlan(t *rapid.T) StartupPlan {
	return StartupPlan{Seed: rapid.Uint64Range(1, 1<<30).Draw(t, "seed"), Creates: rapid.IntRange(20, 60).Draw(t, "creates"),
		Senders: rapid.IntRange(1, 3).Draw(t, "senders"), StartInc: rapid.SampledFrom([]uint32{1, 2, 1000}).Draw(t, "inc")}
}

func runStartup(pl StartupPlan) (res vfx.Result) {
	// a port that is free now; the flood is aimed at it before the node exists
	tl, err := net.ListenTCP("tcp", &net.TCPAddr{IP: net.IPv4(127, 0, 0, 1)})
	if err != nil {
		res.Err = err
		return
	}
	port := tl.Addr().(*net.TCPAddr).Port
	_ = tl.Close()
	dst := &net.UDPAddr{IP: net.IPv4(127, 0, 0, 1), Port: port}
	var inc atomic.Uint32
	inc.Store(pl.StartInc)
	stop := make(chan struct{})
	var wg sync.WaitGroup
	var sent atomic.Int64
	for s := 0; s < pl.Senders; s++ {
		wg.Add(1)
		go func() {
			defer wg.Done()
			us, err := net.ListenUDP("udp", &net.UDPAddr{IP: net.IPv4(127, 0, 0, 1)})
			if err != nil {
				return
			}
			defer us.Close()
			for {
				select {
				case <-stop:
					return
				default:
				}
				a := wire.Alive{Incarnation: inc.Add(1), Node: "phoenix", Addr: []byte{127, 0, 0, 1}, Port: uint16(port), Meta: []byte("previous-life"), Vsn: []uint8{1, 5, 2, 0, 0, 0}}
				_, _ = us.WriteToUDP(wire.Encode(wire.AliveMsg, a), dst)
				sent.Add(1)
			}
		}()
	}
	defer func() { close(stop); wg.Wait() }()
	conf := puppet.NodeConf{Name: "phoenix", IndirectChecks: 0, ProbeIntervalMs: 1000, ProbeTimeoutMs: 500, GossipIntervalMs: 100, TCPTimeoutMs: 300, Meta: []byte("new-life")}
	created := 0
	for i := 0; i < pl.Creates; i++ {
		if inc.Load() > 1<<31 {
			break
		}
		nd, err := realnet.Start(conf, realnet.ModeDefault, port, false)
		if err != nil {
			// the kernel may have handed the port to somebody else in the meantime; nothing to judge
			own := realnet.OwnSocketsOnPort(port)
			if len(own) == 0 {
				res.Labels = append(res.Labels, "port-taken-by-another-process")
				break
			}
			res.Err = fmt.Errorf("create %d on port %d failed although this process holds %v: %v", i, port, own, err)
			return
		}
		created++
		listed := false
		for _, n := range nd.M.Members() {
			if n.Name == "phoenix" {
				listed = true
			}
		}
		num := nd.M.NumMembers()
		_ = nd.M.Shutdown()
		if !listed || num < 1 {
			res.Err = fmt.Errorf("create %d of %d (flood of alive claims about the node at rising incarnations, %d sent so far, now at incarnation %d): Create returned and the node does not hold itself alive: listed in its own Members(): %v, NumMembers() = %d",
				i, pl.Creates, sent.Load(), inc.Load(), listed, num)
			return
		}
	}
	res.NonTrivial = created > 0 && sent.Load() > 0
	res.Sub = map[string]int64{"creates-under-fire": int64(created), "claims-sent": sent.Load()}
	_ = time.Now
	return
}

func TestStartupUnderFire(t *testing.T) {
	vfx.Check(t, genStartupPlan, runStartup)
}
