package c16

import (
	"fmt"
	"strings"
	"testing"
	"testing/synctest"
	"time"

	"pgregory.net/rapid"

	"verif/harness/puppet"
	"verif/harness/vfx"
	"verif/harness/wire"
)

// (b) isolation: one fresh real node per case, one message under a sender
// label; when the receiver must not accept the header the outcome is
// "nothing" (no membership change, no delegate callback, not a single
// outbound byte), otherwise the message has its normal effect.

var family = []string{"", "a", "ab", "b", strings.Repeat("x", 255), strings.Repeat("x", 254) + "y"}

type IsoCase struct {
	Lr, Ls  int
	Skip    bool
	Encrypt bool
	Msg     string // ping | indirect | alive | suspect-self | user | s-ping | s-pushpull | s-user
	Carrier string
	Double  bool // label header applied twice by the sender
}

func genIso(t *rapid.T) IsoCase {
	return IsoCase{Lr: rapid.IntRange(0, len(family)-1).Draw(t, "lr"), Ls: rapid.IntRange(0, len(family)-1).Draw(t, "ls"),
		Skip: rapid.IntRange(0, 3).Draw(t, "skip") == 0, Encrypt: rapid.Bool().Draw(t, "enc"),
		Msg:     rapid.SampledFrom([]string{"ping", "indirect", "alive", "suspect-self", "user", "s-ping", "s-pushpull", "s-user"}).Draw(t, "msg"),
		Carrier: rapid.SampledFrom([]string{"single", "compound", "compress", "crc"}).Draw(t, "car"),
		Double:  rapid.IntRange(0, 9).Draw(t, "double") == 0}
}

func runIso(c IsoCase) (res vfx.Result) {
	synctest.Test(theT, func(t *testing.T) { res = runIsoIn(c) })
	return
}

func runIsoIn(c IsoCase) (res vfx.Result) {
	fail := func(f string, a ...any) vfx.Result { res.Err = fmt.Errorf(f, a...); return res }
	lr, ls := family[c.Lr], family[c.Ls]
	conf := puppet.NodeConf{Name: "n0", IP: "10.0.0.1", Port: 7946, IndirectChecks: 2, Label: lr, SkipLabel: c.Skip, GossipIntervalMs: 100}
	key := []byte("0123456789abcdef")
	if c.Encrypt {
		conf.Keys = [][]byte{key}
	}
	p, err := puppet.New(7, conf)
	if err != nil {
		return fail("create: %v", err)
	}
	defer func() { p.Shutdown(); time.Sleep(20 * time.Second) }()
	vsn := []uint8{1, 5, 2, 0, 0, 0}
	// the sender is a raw endpoint: it must see replies in whatever form they come
	var gotPackets [][]byte
	sender := p.AddPeer("s1", "10.0.0.9", 7946, vsn)
	sender.AckPings, sender.Relay, sender.ServePP, sender.AckTCP = false, false, false, false
	_ = gotPackets
	if !c.Skip {
		c.Double = false // a second header behind a valid one is just a malformed payload (C13), not a label question
	}
	accept := (!c.Skip && ls == lr) || (c.Skip && ls == "")
	if c.Double {
		accept = false
	}
	// the label the receiver authenticates with when it accepts
	aad := ls
	if c.Skip {
		aad = lr
	}
	var keys [][]byte
	if c.Encrypt {
		keys = [][]byte{key}
	}
	evBefore := p.Rec.Len()
	tapBefore := p.TapLen()
	wrapPkt := func(plain []byte) []byte {
		b := plain
		if c.Encrypt {
			b = wire.Seal(1, key, p.Nonce(), plain, []byte(aad))
		}
		b = wire.LabelWrap(b, ls)
		if c.Double {
			b = wire.LabelWrap(b, ls)
			if ls == "" {
				b = wire.LabelWrap(b, "zz")
				b = wire.LabelWrap(b, "zz")
			}
		}
		return b
	}
	wrapStream := func(plain []byte) []byte {
		b := plain
		if c.Encrypt {
			b = wire.StreamSeal(1, key, p.Nonce(), plain, aad)
		}
		b = wire.LabelWrap(b, ls)
		if c.Double {
			b = wire.LabelWrap(b, ls)
			if ls == "" {
				b = wire.LabelWrap(wire.LabelWrap(b, "zz"), "zz")
			}
		}
		return b
	}
	var reply []byte
	car := puppet.Carrier{Kind: c.Carrier}
	if c.Carrier == "crc" {
		car = puppet.Carrier{Kind: "single", CRC: true}
	}
	sendPkt := func(leaf []byte) {
		for _, pl := range puppet.PackPlain([][]byte{leaf}, car) {
			p.Net.SendFrom(sender.Addr(), p.Addr(), wrapPkt(pl))
		}
		p.Settle()
		time.Sleep(150 * time.Millisecond) // one gossip interval: a refutation or re-gossip would leave now
		p.Settle()
	}
	sendStream := func(plain []byte) {
		cn, err := sender.EP.Dial(p.Addr(), time.Second)
		if err != nil {
			return
		}
		_, _ = cn.Write(wrapStream(plain))
		reply, _ = cn.ReadAllFor(3 * time.Second)
		cn.Close()
		p.Settle()
	}
	switch c.Msg {
	case "ping":
		sendPkt(wire.Encode(wire.PingMsg, &wire.Ping{SeqNo: 77, Node: "n0"}))
	case "indirect":
		sendPkt(wire.Encode(wire.IndirectPingMsg, &wire.IndirectPing{SeqNo: 78, Target: []byte{10, 0, 0, 9}, Port: 7946, Node: "s1", Nack: true}))
	case "alive":
		sendPkt(puppet.Claim{Kind: "alive", Node: "s1", Inc: 1, Addr: []byte{10, 0, 0, 9}, Port: 7946, Vsn: vsn}.Leaf())
	case "suspect-self":
		sendPkt(puppet.Claim{Kind: "suspect", Node: "n0", Inc: 1, From: "s1"}.Leaf())
	case "user":
		sendPkt(append([]byte{wire.UserMsg}, []byte("hello")...))
	case "s-ping":
		sendStream(wire.Encode(wire.PingMsg, &wire.Ping{SeqNo: 79, Node: "n0"}))
	case "s-pushpull":
		sendStream(wire.PushPull(true, []wire.PushNodeState{{Name: "s1", Addr: []byte{10, 0, 0, 9}, Port: 7946, Incarnation: 1, State: 0, Vsn: vsn}}, []byte("ustate")))
	case "s-user":
		sendStream(wire.UserStream([]byte("hello-stream")))
	}
	// what did the node do?
	evs, _ := p.Net.EventsSince(tapBefore)
	outBytes := 0
	var outDesc []string
	for _, e := range evs {
		if e.Src == p.Addr() && (e.Kind == "pkt" || e.Kind == "pkt-lost" || e.Kind == "swrite") {
			outBytes += len(e.Data)
			outDesc = append(outDesc, e.String())
		}
	}
	cbs := p.Rec.Since(evBefore)
	members := p.MemberNames()
	own := p.M.LocalNode()
	relation := "differ"
	switch {
	case ls == lr:
		relation = "equal"
	case ls == "" || lr == "":
		relation = "one-empty"
	case strings.HasPrefix(ls, lr) || strings.HasPrefix(lr, ls):
		relation = "prefix"
	case len(ls) == 255 && len(lr) == 255:
		relation = "255-last-byte"
	}
	res.Labels = []string{fmt.Sprintf("accept=%v", accept), "msg:" + c.Msg, "rel:" + relation, fmt.Sprintf("skip=%v", c.Skip)}
	if !accept {
		res.NonTrivial = relation == "prefix" || relation == "255-last-byte" || c.Skip || c.Double
		if outBytes != 0 {
			return fail("receiver label %q (skip=%v), sender label %q, double=%v: %s must be ignored but the node sent %d bytes: %v (reply %x)", short(lr), c.Skip, short(ls), c.Double, c.Msg, outBytes, outDesc, reply)
		}
		if len(cbs) != 0 {
			return fail("receiver label %q (skip=%v), sender label %q: %s must be ignored but delegates were called: %v", short(lr), c.Skip, short(ls), c.Msg, cbs)
		}
		if len(members) != 1 {
			return fail("receiver label %q (skip=%v), sender label %q: membership changed: %v", short(lr), c.Skip, short(ls), members)
		}
		if own.Name != "n0" || p.M.GetHealthScore() != 0 {
			return fail("receiver label %q (skip=%v), sender label %q: %s changed the node's own state (health %d)", short(lr), c.Skip, short(ls), c.Msg, p.M.GetHealthScore())
		}
		if len(reply) != 0 {
			return fail("mislabelled stream got a %d-byte reply", len(reply))
		}
		return res
	}
	// accepted: the normal effect must be there (otherwise the check would be vacuous)
	res.NonTrivial = true
	switch c.Msg {
	case "suspect-self":
		// alone in its table the node has nobody to gossip the refutation to; the
		// refutation itself shows in the health score
		if p.M.GetHealthScore() != 1 {
			return fail("correctly labelled suspicion about the node was not refuted (health %d)", p.M.GetHealthScore())
		}
	case "ping", "indirect":
		if outBytes == 0 {
			return fail("receiver label %q (skip=%v), sender label %q: a correctly labelled %s had no effect on the wire", short(lr), c.Skip, short(ls), c.Msg)
		}
	case "alive":
		if len(members) != 2 {
			return fail("correctly labelled alive was not accepted: members %v (log %v)", members, tail(p))
		}
	case "user", "s-user":
		ok := false
		for _, e := range cbs {
			if e.Kind == "msg" {
				ok = true
			}
		}
		if !ok {
			return fail("correctly labelled user message was not delivered (receiver %q skip=%v sender %q; log %v)", short(lr), c.Skip, short(ls), tail(p))
		}
	case "s-ping", "s-pushpull":
		if len(reply) == 0 {
			return fail("correctly labelled %s got no reply (receiver %q skip=%v sender %q; log %v)", c.Msg, short(lr), c.Skip, short(ls), tail(p))
		}
		cd := wire.Codec{Label: aad, Keys: keys}
		if _, err := cd.DecodeStream(reply); err != nil {
			return fail("reply to %s is not decodable: %v", c.Msg, err)
		}
	}
	return res
}

func short(s string) string {
	if len(s) > 8 {
		return fmt.Sprintf("%s..(%d)%s", s[:3], len(s), s[len(s)-1:])
	}
	return s
}

func tail(p *puppet.Puppet) []string {
	l := p.Log.Lines
	if len(l) > 5 {
		l = l[len(l)-5:]
	}
	return l
}

func TestIsolation(t *testing.T) {
	theT = t
	vfx.Check(t, genIso, runIso)
}
