package c16

import (
	"testing"
)

// Native coverage-guided fuzzing of the same codec round trips (thorough tier;
// the quick tier only replays the seed corpus).

func FuzzLabelPacket(f *testing.F) {
	f.Add([]byte("label"), []byte{0, 1, 2})
	f.Add([]byte{244}, []byte{244, 1, 65})
	f.Add(make([]byte, 255), []byte{})
	f.Add(make([]byte, 256), []byte{1})
	f.Fuzz(func(t *testing.T, label, payload []byte) {
		if r := checkPacket(PktCase{Label: label, Payload: payload}); r.Err != nil {
			t.Fatal(r.Err)
		}
	})
}

func FuzzLabelStream(f *testing.F) {
	f.Add([]byte("label"), []byte{0, 1, 2}, uint16(1), uint16(3))
	f.Add(make([]byte, 255), make([]byte, 5000), uint16(256), uint16(4096))
	f.Fuzz(func(t *testing.T, label, payload []byte, c1, c2 uint16) {
		theT = t
		if len(payload) > 0 && payload[0] == 244 && len(label) == 0 {
			return
		}
		if len(payload) > 1<<16 {
			return
		}
		var chunks []int
		if c1 > 0 {
			chunks = append(chunks, int(c1))
		}
		if c2 > 0 {
			chunks = append(chunks, int(c2))
		}
		if r := checkStream(StreamCase{Label: label, Payload: payload, Chunks: chunks}); r.Err != nil {
			t.Fatal(r.Err)
		}
	})
}
