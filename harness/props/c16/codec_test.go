// C16 — labels isolate logical clusters. (a) header codec round trips.
package c16

import (
	"bytes"
	"fmt"
	"io"
	"testing"
	"testing/synctest"
	"time"

	"github.com/hashicorp/memberlist"
	"pgregory.net/rapid"

	"verif/harness/simnet"
	"verif/harness/vfx"
)

func TestMain(m *testing.M) { vfx.Main(m) }

var theT *testing.T

// ---- packets ------------------------------------------------------------------

type PktCase struct {
	Label   []byte
	Payload []byte
}

func checkPacket(c PktCase) (res vfx.Result) {
	label := string(c.Label)
	res.Err = vfx.Guard(func() error {
		out, err := memberlist.AddLabelHeaderToPacket(c.Payload, label)
		if len(label) > 255 {
			if err == nil {
				return fmt.Errorf("a %d-byte label was accepted", len(label))
			}
			res.Labels = append(res.Labels, "too-long-refused")
			return nil
		}
		if err != nil {
			return fmt.Errorf("AddLabelHeaderToPacket(%d-byte label): %v", len(label), err)
		}
		if label == "" {
			if !bytes.Equal(out, c.Payload) {
				return fmt.Errorf("empty label changed the packet")
			}
			return nil
		}
		if len(out) != len(c.Payload)+2+len(label) {
			return fmt.Errorf("labelled packet has %d bytes, want %d", len(out), len(c.Payload)+2+len(label))
		}
		rest, got, err := memberlist.RemoveLabelHeaderFromPacket(out)
		if err != nil {
			return fmt.Errorf("RemoveLabelHeaderFromPacket: %v", err)
		}
		if got != label || !bytes.Equal(rest, c.Payload) {
			return fmt.Errorf("round trip: label %q -> %q, payload %x -> %x", label, got, c.Payload, rest)
		}
		// every strict prefix that cuts into the header must be refused, never mis-parsed
		for cut := 1; cut < 2+len(label); cut++ {
			if _, l2, err := memberlist.RemoveLabelHeaderFromPacket(out[:cut]); err == nil && l2 != "" {
				return fmt.Errorf("header truncated to %d bytes parsed as label %q", cut, l2)
			}
		}
		res.NonTrivial = true
		return nil
	})
	res.Labels = append(res.Labels, fmt.Sprintf("labellen-class:%d", lenClass(len(label))))
	return
}

func lenClass(n int) int {
	switch {
	case n == 0:
		return 0
	case n == 1:
		return 1
	case n < 255:
		return 2
	case n == 255:
		return 255
	}
	return 256
}

func genLabel(t *rapid.T) []byte {
	n := rapid.OneOf(rapid.IntRange(0, 4), rapid.IntRange(0, 260), rapid.SampledFrom([]int{1, 254, 255, 256, 300})).Draw(t, "labellen")
	b := make([]byte, n)
	fill := rapid.SampledFrom([]string{"ascii", "bytes", "magic"}).Draw(t, "fill")
	for i := range b {
		switch fill {
		case "ascii":
			b[i] = byte('a' + i%26)
		case "magic":
			b[i] = 244
		default:
			b[i] = byte(rapid.IntRange(0, 255).Draw(t, "b"))
		}
	}
	return b
}

func genPayload(t *rapid.T) []byte {
	n := rapid.OneOf(rapid.IntRange(0, 8), rapid.IntRange(0, 300), rapid.SampledFrom([]int{4094, 4095, 4096, 4097, 9000})).Draw(t, "paylen")
	b := make([]byte, n)
	first := rapid.SampledFrom([]int{-1, 244, 0, 10}).Draw(t, "first")
	for i := range b {
		b[i] = byte(i*7 + n)
	}
	if n > 0 && first >= 0 {
		b[0] = byte(first)
	}
	return b
}

func TestCodecPacket(t *testing.T) {
	vfx.Check(t, func(t *rapid.T) PktCase { return PktCase{Label: genLabel(t), Payload: genPayload(t)} }, checkPacket)
}

// ---- streams ------------------------------------------------------------------

type StreamCase struct {
	Label   []byte
	Payload []byte
	Chunks  []int // fragment sizes applied cyclically to the sender's writes
	LatUs   int
}

func checkStream(c StreamCase) (res vfx.Result) {
	synctest.Test(theT, func(t *testing.T) { res = checkStreamIn(c) })
	return
}

func checkStreamIn(c StreamCase) (res vfx.Result) {
	label := string(c.Label)
	res.Err = vfx.Guard(func() error {
		net := simnet.New(1)
		net.SetRecord(false)
		chunks := c.Chunks
		v := simnet.StreamVerdict{CutAB: -1, CutBA: -1, Latency: time.Duration(c.LatUs) * time.Microsecond}
		if len(chunks) > 0 {
			v.Chunk = func(i int) int { return chunks[i%len(chunks)] }
		}
		a, b := net.Pipe(v)
		defer a.Close()
		defer b.Close()
		werr := make(chan error, 1)
		go func() {
			if err := memberlist.AddLabelHeaderToStream(a, label); err != nil {
				werr <- err
				a.CloseWrite()
				return
			}
			_, err := a.Write(c.Payload)
			a.CloseWrite()
			werr <- err
		}()
		if len(label) > 255 {
			if err := <-werr; err == nil {
				return fmt.Errorf("a %d-byte label was accepted on a stream", len(label))
			}
			res.Labels = append(res.Labels, "too-long-refused")
			return nil
		}
		_ = b.SetReadDeadline(time.Now().Add(10 * time.Second))
		conn, got, err := memberlist.RemoveLabelHeaderFromStream(b)
		if err != nil {
			return fmt.Errorf("RemoveLabelHeaderFromStream: %v (label %d bytes, payload %d bytes, chunks %v)", err, len(label), len(c.Payload), chunks)
		}
		if got != label {
			return fmt.Errorf("stream label %q -> %q", label, got)
		}
		rest, err := io.ReadAll(conn)
		if err != nil {
			return fmt.Errorf("reading the rest of the stream: %v", err)
		}
		if !bytes.Equal(rest, c.Payload) {
			return fmt.Errorf("stream payload changed: sent %d bytes, got %d bytes (first difference at %d), chunks %v", len(c.Payload), len(rest), firstDiff(rest, c.Payload), chunks)
		}
		if err := <-werr; err != nil {
			return fmt.Errorf("writer: %v", err)
		}
		split := false
		if len(label) > 0 && len(chunks) > 0 && chunks[0] < 2+len(label) {
			split = true
		}
		res.NonTrivial = len(label) > 0 && split
		if split {
			res.Labels = append(res.Labels, "header-split-across-fragments")
		}
		return nil
	})
	res.Labels = append(res.Labels, fmt.Sprintf("labellen-class:%d", lenClass(len(label))))
	return
}

func firstDiff(a, b []byte) int {
	for i := 0; i < len(a) && i < len(b); i++ {
		if a[i] != b[i] {
			return i
		}
	}
	return min(len(a), len(b))
}

func genStreamCase(t *rapid.T) StreamCase {
	c := StreamCase{Label: genLabel(t), Payload: genPayload(t)}
	if len(c.Payload) > 0 && c.Payload[0] == 244 && len(c.Label) == 0 {
		c.Payload[0] = 0 // an unlabelled stream never starts with the label magic (message types are < 14)
	}
	c.Chunks = rapid.SliceOfN(rapid.OneOf(rapid.IntRange(1, 3), rapid.IntRange(1, 300), rapid.SampledFrom([]int{1, 2, 255, 256, 257, 4095, 4096, 4097})), 0, 6).Draw(t, "chunks")
	c.LatUs = rapid.SampledFrom([]int{0, 0, 100}).Draw(t, "lat")
	return c
}

func TestCodecStream(t *testing.T) {
	theT = t
	vfx.Check(t, genStreamCase, checkStream)
}

// ---- several streams whose headers are removed before any payload is read ----------------
//
// A node serves many inbound streams at once; the header of one stream is removed while the payload of another is
// still waiting to be read. Whatever the order, every stream must hand back its own label and its own payload.

type InterCase struct {
	Streams []StreamCase
	Order   []int // order in which the payloads are read after all headers were removed
}

func checkInterleaved(c InterCase) (res vfx.Result) {
	synctest.Test(theT, func(t *testing.T) { res = checkInterleavedIn(c) })
	return
}

func checkInterleavedIn(c InterCase) (res vfx.Result) {
	res.Err = vfx.Guard(func() error {
		net := simnet.New(1)
		net.SetRecord(false)
		type end struct{ a, b *simnet.Conn }
		var ends []end
		for _, sc := range c.Streams {
			chunks := sc.Chunks
			v := simnet.StreamVerdict{CutAB: -1, CutBA: -1, Latency: time.Duration(sc.LatUs) * time.Microsecond}
			if len(chunks) > 0 {
				v.Chunk = func(i int) int { return chunks[i%len(chunks)] }
			}
			a, b := net.Pipe(v)
			defer a.Close()
			defer b.Close()
			ends = append(ends, end{a, b})
			sc := sc
			go func() {
				if err := memberlist.AddLabelHeaderToStream(a, string(sc.Label)); err == nil {
					_, _ = a.Write(sc.Payload)
				}
				a.CloseWrite()
			}()
		}
		time.Sleep(50 * time.Millisecond) // everything written has arrived and is buffered
		synctest.Wait()
		conns := make([]io.Reader, len(ends))
		for i, e := range ends {
			_ = e.b.SetReadDeadline(time.Now().Add(10 * time.Second))
			conn, got, err := memberlist.RemoveLabelHeaderFromStream(e.b)
			if err != nil {
				return fmt.Errorf("stream %d: RemoveLabelHeaderFromStream: %v", i, err)
			}
			if got != string(c.Streams[i].Label) {
				return fmt.Errorf("stream %d: label %q -> %q", i, c.Streams[i].Label, got)
			}
			conns[i] = conn
		}
		for _, i := range c.Order {
			rest, err := io.ReadAll(conns[i])
			if err != nil {
				return fmt.Errorf("stream %d: reading the rest: %v", i, err)
			}
			if want := c.Streams[i].Payload; !bytes.Equal(rest, want) {
				return fmt.Errorf("stream %d of %d (label %d bytes): its payload changed while the headers of the other streams were being removed: sent %d bytes, got %d bytes, first difference at %d (read order %v)",
					i, len(c.Streams), len(c.Streams[i].Label), len(want), len(rest), firstDiff(rest, want), c.Order)
			}
		}
		res.NonTrivial = len(c.Streams) >= 2
		return nil
	})
	res.Labels = append(res.Labels, fmt.Sprintf("streams:%d", len(c.Streams)))
	return
}

func TestCodecStreamInterleaved(t *testing.T) {
	theT = t
	vfx.Check(t, func(t *rapid.T) InterCase {
		n := rapid.IntRange(2, 4).Draw(t, "nstreams")
		var c InterCase
		for i := 0; i < n; i++ {
			lab := genLabel(t)
			if len(lab) > 255 {
				lab = lab[:255]
			}
			sc := StreamCase{Label: lab, Payload: genPayload(t), LatUs: rapid.SampledFrom([]int{0, 200}).Draw(t, "lat")}
			if len(sc.Payload) > 0 && sc.Payload[0] == 244 && len(sc.Label) == 0 {
				sc.Payload[0] = 0 // an unlabelled stream never starts with the label magic (message types are < 14)
			}
			if rapid.IntRange(0, 2).Draw(t, "frag") == 0 {
				sc.Chunks = rapid.SliceOfN(rapid.SampledFrom([]int{1, 2, 3, 7, 100, 4096}), 1, 4).Draw(t, "chunks")
			}
			c.Streams = append(c.Streams, sc)
		}
		c.Order = rapid.Permutation(seq(n)).Draw(t, "order")
		return c
	}, checkInterleaved)
}

func seq(n int) []int {
	s := make([]int, n)
	for i := range s {
		s[i] = i
	}
	return s
}
