package c16

import (
	"fmt"
	"strings"
	"testing"
	"testing/synctest"
	"time"

	"pgregory.net/rapid"

	"verif/harness/cluster"
	"verif/harness/puppet"
	"verif/harness/vfx"
)

// (c) two real clusters with different labels share one network; nodes try to
// join across and gossip/probe/push-pull for a while: no node ever lists, or
// delivers an event for, a node of the other cluster.

type TwoCase struct {
	Seed    uint64
	LA, LB  int
	NA, NB  int
	Encrypt bool
	Cross   [][2]int // join attempts: node index (global) -> node index
	DurMs   int
}

func genTwo(t *rapid.T) TwoCase {
	c := TwoCase{Seed: rapid.Uint64Range(1, 1<<30).Draw(t, "seed"), NA: rapid.IntRange(1, 3).Draw(t, "na"), NB: rapid.IntRange(1, 3).Draw(t, "nb"),
		Encrypt: rapid.Bool().Draw(t, "enc"), DurMs: rapid.SampledFrom([]int{5000, 20000}).Draw(t, "dur")}
	c.LA = rapid.IntRange(0, len(family)-1).Draw(t, "la")
	c.LB = rapid.IntRange(0, len(family)-1).Draw(t, "lb")
	if c.LB == c.LA {
		c.LB = (c.LA + 1) % len(family)
	}
	n := c.NA + c.NB
	c.Cross = rapid.SliceOfN(rapid.Custom(func(t *rapid.T) [2]int {
		return [2]int{rapid.IntRange(0, n-1).Draw(t, "from"), rapid.IntRange(0, n-1).Draw(t, "to")}
	}), 1, 6).Draw(t, "cross")
	return c
}

func runTwo(c TwoCase) (res vfx.Result) {
	synctest.Test(theT, func(t *testing.T) { res = runTwoIn(c) })
	return
}

func runTwoIn(c TwoCase) (res vfx.Result) {
	fail := func(f string, a ...any) vfx.Result { res.Err = fmt.Errorf(f, a...); return res }
	cl := cluster.New(c.Seed)
	defer cl.ShutdownAll()
	n := c.NA + c.NB
	var nodes []*cluster.Node
	side := func(i int) int {
		if i < c.NA {
			return 0
		}
		return 1
	}
	labels := []string{family[c.LA], family[c.LB]}
	for i := 0; i < n; i++ {
		nc := puppet.NodeConf{Name: fmt.Sprintf("%c%d", "ab"[side(i)], i), IP: fmt.Sprintf("10.0.0.%d", i+1), Port: 7946, IndirectChecks: 2,
			Label: labels[side(i)], PushPullMs: 3000, ProbeIntervalMs: 500, ProbeTimeoutMs: 200}
		if c.Encrypt {
			nc.Keys = [][]byte{[]byte("0123456789abcdef")}
		}
		nd, err := cl.Start(nc)
		if err != nil {
			return fail("start: %v", err)
		}
		nodes = append(nodes, nd)
	}
	// form each cluster
	for i := 1; i < n; i++ {
		first := 0
		if side(i) == 1 {
			first = c.NA
		}
		if i != first {
			if _, err := nodes[i].M.Join([]string{nodes[first].Addr()}); err != nil {
				return fail("same-label join failed: %v", err)
			}
		}
	}
	crossTried := 0
	for _, j := range c.Cross {
		if side(j[0]) == side(j[1]) {
			continue
		}
		crossTried++
		cnt, err := nodes[j[0]].M.Join([]string{nodes[j[1]].Addr()})
		if err == nil || cnt != 0 {
			return fail("%s (label %q) joined %s (label %q): count %d err %v", nodes[j[0]].Name(), short(labels[side(j[0])]), nodes[j[1]].Name(), short(labels[side(j[1])]), cnt, err)
		}
		// stray best-effort and reliable traffic across
		to := nodes[j[1]].M.LocalNode()
		_ = nodes[j[0]].M.SendBestEffort(to, []byte("stray"))
		_ = nodes[j[0]].M.SendReliable(to, []byte("stray-reliable"))
		time.Sleep(300 * time.Millisecond)
	}
	time.Sleep(time.Duration(c.DurMs) * time.Millisecond)
	cl.Wait()
	for i, nd := range nodes {
		for _, m := range nd.MemberNames() {
			if !strings.HasPrefix(m, string("ab"[side(i)])) {
				return fail("%s (label %q) lists %s of the other cluster", nd.Name(), short(labels[side(i)]), m)
			}
		}
		for _, e := range nd.Rec.Events() {
			if e.Name != "" && !strings.HasPrefix(e.Name, string("ab"[side(i)])) {
				return fail("%s delivered %v about the other cluster", nd.Name(), e)
			}
			if e.Kind == "msg" {
				return fail("%s received a stray user message from the other cluster: %q", nd.Name(), e.Data)
			}
		}
		want := c.NA
		if side(i) == 1 {
			want = c.NB
		}
		if len(nd.MemberNames()) != want {
			return fail("%s sees %v, its own cluster has %d nodes", nd.Name(), nd.MemberNames(), want)
		}
	}
	res.NonTrivial = crossTried > 0
	res.Labels = []string{fmt.Sprintf("enc=%v", c.Encrypt)}
	if strings.HasPrefix(labels[0], labels[1]) || strings.HasPrefix(labels[1], labels[0]) {
		res.Labels = append(res.Labels, "prefix-labels")
	}
	return res
}

func TestTwoClusters(t *testing.T) {
	theT = t
	vfx.Check(t, genTwo, runTwo)
}
