// C14 — inbound authentication: only traffic sealed under an installed key
// (with the node's own label as associated data) is acted on. Three
// identically prepared nodes per case: nothing delivered / the genuine message
// / the modified message; the modified outcome must equal one of the other two.
package c14

import (
	"bytes"
	"fmt"
	"sort"
	"testing"
	"testing/synctest"

	"pgregory.net/rapid"

	"verif/harness/hostile"
	"verif/harness/vfx"
	"verif/harness/wire"
)

func TestMain(m *testing.M) { vfx.Main(m) }

type Mod struct {
	Kind  string // identity | bitflip | setbyte | truncate | extend | splice | header-label | aad-label | foreign-cluster | foreign-key | removed-key | other-key-removed | removed-key-midstream | key-added-midstream | unknown-key-added | secondary-key | plaintext | double-seal
	Pos   int    `json:",omitempty"` // per-mille of the length (bitflip/setbyte/truncate/splice)
	Field string `json:",omitempty"` // bitflip target: any | version | nonce | body | tag | lenprefix | typebyte | label
	Bit   int    `json:",omitempty"`
	Val   int    `json:",omitempty"`
	N     int    `json:",omitempty"`
	Other int    `json:",omitempty"` // splice partner
	Label string `json:",omitempty"`
	Raw   []byte `json:",omitempty"` // xor: mask applied from byte Pos (absolute, modulo the length) onwards (native fuzzing)
}

type Plan struct {
	Seed  uint64
	Label string
	PV    uint8 // 1: encryption version 0, otherwise 1
	Skip  bool  `json:",omitempty"` // the receiver's inbound label check is delegated (SkipInboundLabelCheck): genuine traffic arrives WITHOUT a header, sealed with the label as associated data; anything that still carries a header must be dropped
	G     int
	Mod   Mod
	Late  bool `json:",omitempty"` // the receiver was created with an empty keyring and keyed at run time
}

var corpus = hostile.Corpus()

func genPlan(t *rapid.T) Plan {
	p := Plan{Seed: 1, Label: rapid.SampledFrom([]string{"", "lbl"}).Draw(t, "label"), PV: uint8(rapid.SampledFrom([]int{2, 2, 1}).Draw(t, "pv")),
		G: rapid.IntRange(0, len(corpus)-1).Draw(t, "g")}
	p.Skip = p.Label != "" && rapid.IntRange(0, 2).Draw(t, "skip") == 0
	p.Late = rapid.IntRange(0, 3).Draw(t, "late") == 0
	m := Mod{Kind: rapid.SampledFrom([]string{"bitflip", "bitflip", "bitflip", "bitflip", "setbyte", "truncate", "extend", "splice", "header-label", "aad-label", "foreign-cluster",
		"foreign-key", "removed-key", "removed-key", "other-key-removed", "removed-key-midstream", "removed-key-midstream", "key-added-midstream", "unknown-key-added", "secondary-key", "plaintext", "double-seal", "identity", "version-flip", "version-flip"}).Draw(t, "mod")}
	m.Pos = rapid.IntRange(0, 999).Draw(t, "pos")
	m.Field = rapid.SampledFrom([]string{"any", "version", "nonce", "body", "tag", "lenprefix", "typebyte", "label"}).Draw(t, "field")
	m.Bit = rapid.IntRange(0, 7).Draw(t, "bit")
	m.Val = rapid.SampledFrom([]int{0, 1, 2, 10, 244, 255}).Draw(t, "val")
	m.N = rapid.SampledFrom([]int{1, 2, 16, 17}).Draw(t, "n")
	m.Other = rapid.IntRange(0, len(corpus)-1).Draw(t, "other")
	m.Label = rapid.SampledFrom([]string{"", "lbl", "lbx", "lb", "lbll"}).Draw(t, "mlabel")
	p.Mod = m
	return p
}

var theT *testing.T

type cacheKey struct {
	label string
	pv    uint8
	g     int
	gen   bool
}

var cache = map[cacheKey]hostile.Outcome{}

// a stream delivery in two parts with a keyring operation in between (set by runPlan, consumed by the next deliver)
var midSplit = -1
var midOp func(w *hostile.World)

func deliver(pl Plan, raw []byte, stream bool, prep func(w *hostile.World)) (o hostile.Outcome, err error) {
	split, mid := midSplit, midOp
	midSplit, midOp = -1, nil
	synctest.Test(theT, func(t *testing.T) {
		w, e := hostile.NewWorld(pl.Seed, hostile.Cfg{Label: pl.Label, Encrypt: true, PV: pl.PV, Skip: pl.Skip, LateKey: pl.Late})
		if e != nil {
			err = e
			return
		}
		defer w.Close()
		if prep != nil {
			prep(w)
		}
		if raw == nil {
			o, err = w.Deliver(nil, false)
			return
		}
		if stream && split >= 0 && mid != nil {
			o, err = w.DeliverSplit(raw, split, func() { mid(w) })
			return
		}
		o, err = w.Deliver(raw, stream)
	})
	return
}

// layout describes where the fields of a sealed message sit.
type layout struct {
	hdr                          int // label header length
	typeByte, lenPrefix          int // stream only (-1 otherwise)
	version, nonce, body, tag, n int
}

func layoutOf(raw []byte, label string, stream bool) layout {
	l := layout{typeByte: -1, lenPrefix: -1, n: len(raw)}
	if label != "" {
		l.hdr = 2 + len(label)
	}
	off := l.hdr
	if stream {
		l.typeByte = off
		l.lenPrefix = off + 1
		off += 5
	}
	l.version = off
	l.nonce = off + 1
	l.body = off + 13
	l.tag = len(raw) - 16
	return l
}

func runPlan(pl Plan) (res vfx.Result) {
	fail := func(f string, a ...any) vfx.Result { res.Err = fmt.Errorf(f, a...); return res }
	g := corpus[pl.G]
	vsn := byte(1)
	if pl.PV == 1 {
		vsn = 0
	}
	// a throw-away world only to seal with deterministic nonces is not needed: sealing is pure
	seal := func(plain []byte, stream bool, key []byte, v byte, aad, hdr string, nonceTag byte) []byte {
		nonce := bytes.Repeat([]byte{nonceTag}, 12)
		b := plain
		if key != nil {
			if stream {
				b = wire.StreamSeal(v, key, nonce, plain, aad)
			} else {
				b = wire.Seal(v, key, nonce, plain, []byte(aad))
			}
		}
		return wire.LabelWrap(b, hdr)
	}
	hdr, ckLabel := pl.Label, pl.Label
	if pl.Skip {
		hdr, ckLabel = "", pl.Label+"|skip"
	}
	if pl.Late {
		ckLabel += "|late"
	}
	genuine := seal(g.Plain, g.Stream, hostile.KeyA, vsn, pl.Label, hdr, 7)
	lay := layoutOf(genuine, hdr, g.Stream)
	ck := cacheKey{ckLabel, pl.PV, pl.G, false}
	oNothing, ok := cache[ck]
	if !ok {
		o, err := deliver(pl, nil, false, nil)
		if err != nil {
			return fail("baseline: %v", err)
		}
		oNothing = o
		cache[ck] = o
	}
	ck.gen = true
	oGen, ok := cache[ck]
	if !ok {
		o, err := deliver(pl, genuine, g.Stream, nil)
		if err != nil {
			return fail("genuine %s: %v", g.Name, err)
		}
		oGen = o
		cache[ck] = o
	}
	visible := oGen.Key() != oNothing.Key()
	// ---- build the modified message ----
	mod := append([]byte(nil), genuine...)
	m := pl.Mod
	var prep func(w *hostile.World)
	mustBeNothing := false
	mustBeGenuine := false
	desc := m.Kind
	known := ""
	pick := func() int {
		lo, hi := 0, len(mod)
		switch m.Field {
		case "version":
			lo, hi = lay.version, lay.version+1
		case "nonce":
			lo, hi = lay.nonce, lay.nonce+12
		case "body":
			lo, hi = lay.body, lay.tag
		case "tag":
			lo, hi = lay.tag, len(mod)
		case "lenprefix":
			if lay.lenPrefix >= 0 {
				lo, hi = lay.lenPrefix, lay.lenPrefix+4
			}
		case "typebyte":
			if lay.typeByte >= 0 {
				lo, hi = lay.typeByte, lay.typeByte+1
			}
		case "label":
			if lay.hdr > 0 {
				lo, hi = 0, lay.hdr
			}
		}
		if hi <= lo {
			return lo
		}
		return lo + m.Pos*(hi-lo)/1000
	}
	switch m.Kind {
	case "identity":
	case "bitflip":
		i := pick()
		mod[i] ^= 1 << uint(m.Bit)
		desc = fmt.Sprintf("bitflip byte %d (%s) bit %d", i, fieldAt(lay, i), m.Bit)
		if i == lay.version && m.Bit == 0 {
			known = "C14-version-byte"
		}
	case "setbyte":
		i := pick()
		if mod[i] == byte(m.Val) {
			mod[i] ^= 0x80
		}
		old := genuine[i]
		mod[i] = byte(m.Val)
		if mod[i] == old {
			mod[i] ^= 0x80
		}
		desc = fmt.Sprintf("set byte %d (%s) %d -> %d", i, fieldAt(lay, i), old, mod[i])
		if i == lay.version && old <= 1 && mod[i] <= 1 {
			known = "C14-version-byte"
		}
	case "xor":
		if len(mod) == 0 || len(m.Raw) == 0 {
			return res
		}
		for i, x := range m.Raw {
			mod[(m.Pos+i)%len(mod)] ^= x
		}
		if bytes.Equal(mod, genuine) {
			return res
		}
		desc = fmt.Sprintf("xor mask of %d bytes from byte %d", len(m.Raw), m.Pos%len(mod))
		onlyVersion := true
		for i := range mod {
			if i != lay.version && mod[i] != genuine[i] {
				onlyVersion = false
			}
		}
		if onlyVersion && mod[lay.version] <= 1 && genuine[lay.version] <= 1 {
			known = "C14-version-byte"
		}
	case "version-flip":
		mod[lay.version] ^= 1
		desc = fmt.Sprintf("encryption version byte %d -> %d", genuine[lay.version], mod[lay.version])
		known = "C14-version-byte"
	case "truncate":
		n := m.Pos * len(mod) / 1000
		mod = mod[:n]
		desc = fmt.Sprintf("truncate to %d of %d bytes", n, len(genuine))
	case "extend":
		mod = append(mod, bytes.Repeat([]byte{byte(m.Val)}, m.N)...)
		desc = fmt.Sprintf("extend by %d bytes", m.N)
	case "splice":
		o := corpus[m.Other]
		if o.Stream != g.Stream {
			o = g
		}
		other := seal(o.Plain, o.Stream, hostile.KeyA, vsn, pl.Label, hdr, 9)
		cut := lay.body + m.Pos*(lay.tag-lay.body)/1000
		if cut > len(other) {
			cut = len(other)
		}
		mod = append(append([]byte(nil), genuine[:cut]...), other[cut:]...)
		if bytes.Equal(mod, genuine) {
			mod[len(mod)-1] ^= 1
		}
		desc = fmt.Sprintf("splice with %s at %d", o.Name, cut)
	case "header-label":
		// same ciphertext under another (or no, or an added) label header
		body := genuine[lay.hdr:]
		if pl.Skip {
			if m.Label == "" {
				m.Label = pl.Label // even the node's own label: a header that is still attached was not checked by anybody
			}
		} else if m.Label == pl.Label {
			m.Label = pl.Label + "x"
		}
		mod = wire.LabelWrap(append([]byte(nil), body...), m.Label)
		mustBeNothing = true
		desc = fmt.Sprintf("label header %q -> %q", pl.Label, m.Label)
	case "aad-label":
		if m.Label == pl.Label {
			m.Label = pl.Label + "x"
		}
		mod = seal(g.Plain, g.Stream, hostile.KeyA, vsn, m.Label, hdr, 7)
		mustBeNothing = true
		desc = fmt.Sprintf("sealed with associated label %q under header %q", m.Label, pl.Label)
	case "foreign-cluster":
		// genuine traffic of another logical cluster that shares the key: sealed with ITS label as associated data and
		// carrying ITS header, replayed unchanged
		lbl := m.Label
		if lbl == "" || lbl == pl.Label {
			lbl = pl.Label + "x"
		}
		mod = seal(g.Plain, g.Stream, hostile.KeyA, vsn, lbl, lbl, 7)
		mustBeNothing = true
		desc = fmt.Sprintf("traffic of cluster %q (header and associated data) replayed to %q", lbl, pl.Label)
	case "foreign-key":
		mod = seal(g.Plain, g.Stream, hostile.KeyForeign, vsn, pl.Label, hdr, 7)
		mustBeNothing = true
	case "removed-key":
		// the ring holds three keys: the removed one is the middle or the last one
		rk := hostile.KeyB
		if m.Pos%2 == 1 {
			rk = hostile.KeyC
		}
		mod = seal(g.Plain, g.Stream, rk, vsn, pl.Label, hdr, 7)
		prep = func(w *hostile.World) {
			if err := w.P.MC.Keyring.RemoveKey(rk); err != nil {
				panic(err)
			}
		}
		mustBeNothing = true
		desc = fmt.Sprintf("sealed under removed key #%d of 3", 2+m.Pos%2)
	case "other-key-removed":
		// removing one secondary key must leave the other one usable: exactly the genuine outcome
		rk, uk := hostile.KeyB, hostile.KeyC
		if m.Pos%2 == 1 {
			rk, uk = hostile.KeyC, hostile.KeyB
		}
		mod = seal(g.Plain, g.Stream, uk, vsn, pl.Label, hdr, 7)
		prep = func(w *hostile.World) {
			if err := w.P.MC.Keyring.RemoveKey(rk); err != nil {
				panic(err)
			}
		}
		mustBeGenuine = true
		desc = fmt.Sprintf("sealed under installed key #%d of 3 after key #%d was removed", 2+(m.Pos+1)%2, 2+m.Pos%2)
	case "removed-key-midstream", "key-added-midstream":
		// rotation racing a stream: the first part (up to the label header, the type byte, the length prefix, or into
		// the body) has been read by the node when the key is removed / installed; the rest arrives afterwards
		k, op := hostile.KeyB, "removed"
		if m.Kind == "key-added-midstream" {
			k, op = hostile.KeyForeign, "installed"
		}
		mod = seal(g.Plain, g.Stream, k, vsn, pl.Label, hdr, 7)
		kk := k
		if !g.Stream {
			// packets arrive whole: the operation precedes the delivery
			prep = func(w *hostile.World) {
				if op == "removed" {
					_ = w.P.MC.Keyring.RemoveKey(kk)
				} else {
					_ = w.P.MC.Keyring.AddKey(kk)
				}
			}
		} else {
			cuts := []int{lay.hdr, lay.typeByte + 1, lay.lenPrefix + 2, lay.version, lay.nonce + 5, lay.body + (lay.tag-lay.body)/2, len(mod) - 1}
			midSplit = cuts[m.Pos%len(cuts)]
			midOp = func(w *hostile.World) {
				if op == "removed" {
					_ = w.P.MC.Keyring.RemoveKey(kk)
				} else {
					_ = w.P.MC.Keyring.AddKey(kk)
				}
			}
			desc = fmt.Sprintf("sealed under a key %s after the first %d of %d bytes of the stream were read", op, midSplit, len(mod))
		}
		mustBeNothing = op == "removed"
	case "unknown-key-added":
		// sealed under a key that is installed only after sealing: may be accepted (then exactly as genuine)
		mod = seal(g.Plain, g.Stream, hostile.KeyForeign, vsn, pl.Label, hdr, 7)
		prep = func(w *hostile.World) {
			if err := w.P.MC.Keyring.AddKey(hostile.KeyForeign); err != nil {
				panic(err)
			}
		}
	case "secondary-key":
		sk := hostile.KeyB
		if m.Pos%2 == 1 {
			sk = hostile.KeyC
		}
		mod = seal(g.Plain, g.Stream, sk, vsn, pl.Label, hdr, 7)
		mustBeGenuine = true
	case "plaintext":
		mod = wire.LabelWrap(append([]byte(nil), g.Plain...), hdr)
		mustBeNothing = true
	case "double-seal":
		inner := seal(g.Plain, g.Stream, hostile.KeyA, vsn, pl.Label, "", 7)
		mod = seal(inner, g.Stream, hostile.KeyA, vsn, pl.Label, hdr, 8)
		mustBeNothing = false
	}
	res.Labels = []string{"mod:" + m.Kind, "msg:" + g.Name, fmt.Sprintf("encvsn=%d", vsn)}
	if pl.Skip {
		res.Labels = append(res.Labels, "receiver-skips-label-check", "skip|mod:"+m.Kind)
	}
	if pl.Late {
		res.Labels = append(res.Labels, "receiver-keyed-at-run-time", "late|mod:"+m.Kind)
	}
	if m.Kind == "bitflip" || m.Kind == "setbyte" {
		res.Labels = append(res.Labels, "field:"+m.Field)
	}
	if known != "" && vfx.IsKnown(known) && inherentVersionFlip(g.Plain, vsn) {
		res.Known = known
		return res
	}
	if known != "" {
		res.Labels = append(res.Labels, "version-flip-not-inherent")
	}
	oMod, err := deliver(pl, mod, g.Stream, prep)
	if err != nil {
		return fail("%s on %s: %v", desc, g.Name, err)
	}
	res.NonTrivial = visible && m.Kind != "identity"
	nothingKey := oNothing.Key()
	if prep != nil {
		// the keyring operation itself must not change the outcome of delivering nothing
	}
	isNothing := oMod.Key() == nothingKey
	if !isNothing && g.Stream {
		// a rejected stream may get the generic error reply
		alt := oNothing
		alt.Replies = "stream-error-reply"
		isNothing = oMod.Key() == alt.Key()
	}
	isGenuine := oMod.Key() == oGen.Key()
	if m.Kind == "identity" {
		if !isGenuine {
			return fail("sanity: delivering the genuine %s twice gave different outcomes:\n%s\n%s", g.Name, oGen.Key(), oMod.Key())
		}
		return res
	}
	if mustBeGenuine && !isGenuine {
		return fail("%s (%s, label %q, encryption version %d): must have exactly the effect of the genuine message, but the outcome was\n  %s\ngenuine:\n  %s", g.Name, desc, pl.Label, vsn, oMod.Key(), oGen.Key())
	}
	if mustBeNothing && !isNothing {
		return fail("%s (%s, label %q, encryption version %d): must be dropped without effect, but the outcome was\n  %s\nwith nothing delivered it is\n  %s", g.Name, desc, pl.Label, vsn, oMod.Key(), nothingKey)
	}
	if !isNothing && !isGenuine {
		return fail("%s (%s, label %q, encryption version %d): outcome is neither 'dropped' nor 'exactly the genuine message':\n  modified: %s\n  genuine:  %s\n  nothing:  %s", g.Name, desc, pl.Label, vsn, oMod.Key(), oGen.Key(), nothingKey)
	}
	return res
}

// inherentVersionFlip says whether rewriting the version byte of a genuine
// message falls into the listed known finding C14-version-byte: 0->1 always
// does (the sender's pad bytes are appended); 1->0 only when the plaintext is
// a whole number of blocks ending in well-formed PKCS7 padding. Every other
// 1->0 rewrite must be dropped and is checked like any other modification.
func inherentVersionFlip(plain []byte, genuineVsn byte) bool {
	if genuineVsn == 0 {
		return true
	}
	n := len(plain)
	if n == 0 || n%16 != 0 {
		return false
	}
	pad := int(plain[n-1])
	if pad < 1 || pad > 16 {
		return false
	}
	for _, b := range plain[n-pad:] {
		if int(b) != pad {
			return false
		}
	}
	return true
}

func fieldAt(l layout, i int) string {
	switch {
	case i < l.hdr:
		return "label header"
	case l.typeByte >= 0 && i == l.typeByte:
		return "stream type byte"
	case l.lenPrefix >= 0 && i >= l.lenPrefix && i < l.lenPrefix+4:
		return "length prefix"
	case i == l.version:
		return "version"
	case i < l.body:
		return "nonce"
	case i < l.tag:
		return "body"
	}
	return "tag"
}

func TestAuthentication(t *testing.T) {
	theT = t
	vfx.Check(t, genPlan, runPlan)
}

// TestCorpusVisible makes sure every genuine message has a visible effect in
// every configuration (otherwise tampering with it could not be told from
// dropping it).
func TestCorpusVisible(t *testing.T) {
	theT = t
	var invisible []string
	for _, label := range []string{"", "lbl"} {
		for _, pv := range []uint8{2, 1} {
			for gi, g := range corpus {
				r := runPlan(Plan{Seed: 1, Label: label, PV: pv, G: gi, Mod: Mod{Kind: "identity"}})
				if r.Err != nil {
					t.Errorf("%v", r.Err)
				}
				k1, k2 := cache[cacheKey{label, pv, gi, false}], cache[cacheKey{label, pv, gi, true}]
				if k1.Key() == k2.Key() {
					invisible = append(invisible, g.Name)
				}
			}
		}
	}
	sort.Strings(invisible)
	t.Logf("genuine messages without visible effect: %v", invisible)
	for _, n := range invisible {
		if n != "ack" && n != "nack" {
			t.Errorf("genuine message %s has no visible effect; the corpus entry is useless", n)
		}
	}
}

// TestKnownVersionByte re-demonstrates the listed known finding
// C14-version-byte with one fixed case each way; it reports, never fails.
func TestKnownVersionByte(t *testing.T) {
	theT = t
	if !vfx.IsKnown("C14-version-byte") {
		t.Skip("not listed as known")
	}
	userIdx := -1
	for i, g := range corpus {
		if g.Name == "user" {
			userIdx = i
		}
	}
	// 0 -> 1 on a version-0 sender's user packet: pad bytes reach the delegate
	pl := Plan{Seed: 1, Label: "", PV: 1, G: userIdx}
	g := corpus[userIdx]
	genuine := wire.Seal(0, hostile.KeyA, bytes.Repeat([]byte{7}, 12), g.Plain, nil)
	mod := append([]byte(nil), genuine...)
	mod[0] = 1
	oGen, err := deliver(pl, genuine, false, nil)
	if err != nil {
		t.Fatal(err)
	}
	oNothing, err := deliver(pl, nil, false, nil)
	if err != nil {
		t.Fatal(err)
	}
	oMod, err := deliver(pl, mod, false, nil)
	if err != nil {
		t.Fatal(err)
	}
	if oMod.Key() != oGen.Key() && oMod.Key() != oNothing.Key() {
		vfx.ReportKnown(t.Name(), "C14-version-byte", "version byte 0->1 on a user packet: the delegate receives the payload plus the sender's PKCS7 pad bytes ("+oMod.Events+")")
	} else {
		vfx.Note(t.Name(), "known finding C14-version-byte (0->1) did not reproduce on this tree")
	}
	// 1 -> 0 on a version-1 user packet whose plaintext is 32 bytes ending in 0x01: last byte cut off
	plain := append([]byte{wire.UserMsg}, bytes.Repeat([]byte{'A'}, 30)...)
	plain = append(plain, 1)
	pl2 := Plan{Seed: 1, Label: "", PV: 2, G: userIdx}
	gen2 := wire.Seal(1, hostile.KeyA, bytes.Repeat([]byte{7}, 12), plain, nil)
	mod2 := append([]byte(nil), gen2...)
	mod2[0] = 0
	oGen2, err := deliver(pl2, gen2, false, nil)
	if err != nil {
		t.Fatal(err)
	}
	oMod2, err := deliver(pl2, mod2, false, nil)
	if err != nil {
		t.Fatal(err)
	}
	oNothing2, _ := deliver(pl2, nil, false, nil)
	if oMod2.Key() != oGen2.Key() && oMod2.Key() != oNothing2.Key() {
		vfx.ReportKnown(t.Name(), "C14-version-byte", "version byte 1->0 on a 32-byte plaintext ending in 0x01: the accepted message loses its last byte")
	}
	vfx.Record(t.Name(), pl, vfx.Result{Labels: []string{"known-finding-regression"}})
}

// TestBitSweep enumerates every single-bit modification of the sealed form of
// every genuine message whose sealed length is at most 200 bytes (packet and
// stream, with and without label, encryption versions 0 and 1). Exhaustive in
// the thorough tier; every 24th bit in the quick tier.
func TestBitSweep(t *testing.T) {
	theT = t
	step := 24
	if vfx.Thorough() {
		step = 1
	}
	k, n := vfx.Shard()
	idx := 0
	for _, label := range []string{"", "lbl"} {
		for _, pv := range []uint8{2, 1} {
			for gi, g := range corpus {
				vsn := byte(1)
				if pv == 1 {
					vsn = 0
				}
				var sealed []byte
				nonce := bytes.Repeat([]byte{7}, 12)
				if g.Stream {
					sealed = wire.LabelWrap(wire.StreamSeal(vsn, hostile.KeyA, nonce, g.Plain, label), label)
				} else {
					sealed = wire.LabelWrap(wire.Seal(vsn, hostile.KeyA, nonce, g.Plain, []byte(label)), label)
				}
				if len(sealed) > 200 {
					continue
				}
				for bit := 0; bit < len(sealed)*8; bit += step {
					idx++
					if idx%n != k {
						continue
					}
					pl := Plan{Seed: 1, Label: label, PV: pv, G: gi, Mod: Mod{Kind: "bitflip", Field: "any", Pos: (bit/8*1000 + 999) / len(sealed), Bit: bit % 8}}
					// address the byte exactly: Pos is per-mille, so verify the mapping
					if pl.Mod.Pos*len(sealed)/1000 != bit/8 {
						pl.Mod.Pos = bit / 8 * 1000 / len(sealed)
						for pl.Mod.Pos*len(sealed)/1000 < bit/8 {
							pl.Mod.Pos++
						}
					}
					r := runPlan(pl)
					r.Key = fmt.Sprintf("%s/%d/%d/%d", label, pv, gi, bit)
					r.Labels = append(r.Labels, "sweep")
					vfx.CheckCaseAs(t, "TestAuthentication", pl, r)
					if r.Err != nil {
						return
					}
				}
			}
		}
	}
	if step == 1 {
		vfx.SetExhaustive("TestAuthentication", "bit sweep: every single-bit flip of every genuine sealed message <= 200 bytes x {label, no label} x {encryption version 0, 1}")
	}
}
