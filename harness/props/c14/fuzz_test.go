package c14

import "testing"

// Native coverage-guided fuzzing of the authentication oracle: the fuzzer chooses a genuine message (g), the
// receiver's configuration (label, encryption version, delegated label check) and an XOR mask laid over the sealed
// bytes from an offset of its choosing (label header, version byte, nonce, length prefix, body and tag are all within
// reach). The three-way comparison of TestAuthentication decides: the outcome is that of nothing delivered or exactly
// that of the genuine message. The one listed finding (version byte rewritten 0<->1 with everything else intact) is
// recognised and excluded inside runPlan.
func FuzzTamper(f *testing.F) {
	for g := range corpus {
		f.Add(uint8(g), uint8(0), uint16(0), []byte{1})
		f.Add(uint8(g), uint8(1), uint16(5), []byte{0x80})
		f.Add(uint8(g), uint8(3), uint16(3), []byte{0, 0, 0, 0, 1})
		f.Add(uint8(g), uint8(2), uint16(60000), []byte{0xff, 0xff})
	}
	f.Fuzz(func(t *testing.T, g uint8, cfg uint8, off uint16, mask []byte) {
		theT = t
		if len(mask) > 256 {
			return
		}
		pl := Plan{Seed: 1, G: int(g) % len(corpus), PV: 2, Mod: Mod{Kind: "xor", Pos: int(off), Raw: mask}}
		if cfg&1 != 0 {
			pl.Label = "lbl"
		}
		if cfg&2 != 0 {
			pl.PV = 1
		}
		if cfg&4 != 0 && pl.Label != "" {
			pl.Skip = true
		}
		if r := runPlan(pl); r.Err != nil {
			t.Fatal(r.Err)
		}
	})
}
