// C05 — views re-converge to the live set once faults stop.
package c05

import (
	"fmt"
	"sort"
	"strings"
	"sync"
	"testing"
	"testing/synctest"
	"time"

	"pgregory.net/rapid"

	"verif/harness/cluster"
	"verif/harness/vfx"
	"verif/harness/wire"
)

func TestMain(m *testing.M) { vfx.Main(m) }

type Ev struct {
	AtMs    int
	Kind    string // crash | restart | leave | update | part | heal
	Node    int    `json:",omitempty"`
	Mask    int    `json:",omitempty"` // partition: bit i set = node i on side A
	Asym    bool   `json:",omitempty"` // only A->B is blocked
	Host    bool   `json:",omitempty"` // crash: host down (dials hang) instead of refused
	Unreach bool   `json:",omitempty"` // crash: host down and packet writes towards it fail at the sender
}

type Plan struct {
	Seed    uint64
	Conf    cluster.Conf
	Faults  cluster.Faults
	FaultMs int // duration of the fault phase after formation (formation takes the first 3 s)
	Events  []Ev
	JoinVia []int
}

func genPlan(t *rapid.T) Plan {
	p := Plan{Seed: rapid.Uint64Range(1, 1<<40).Draw(t, "seed")}
	maxN := 7
	if vfx.Thorough() {
		maxN = 12
	}
	p.Conf = cluster.GenConf(t, 3, maxN)
	n := p.Conf.N
	p.JoinVia = make([]int, n)
	for i := 1; i < n; i++ {
		p.JoinVia[i] = rapid.IntRange(0, i-1).Draw(t, "via")
	}
	p.Faults = cluster.Faults{
		LossPct:     rapid.SampledFrom([]int{0, 5, 20, 40}).Draw(t, "loss"),
		DupPct:      rapid.SampledFrom([]int{0, 10, 30}).Draw(t, "dup"),
		MinLatUs:    50,
		MaxLatUs:    rapid.SampledFrom([]int{500, 20000, 300000, 1200000}).Draw(t, "maxlat"),
		RefusePct:   rapid.SampledFrom([]int{0, 20}).Draw(t, "refuse"),
		CutPct:      rapid.SampledFrom([]int{0, 30}).Draw(t, "cut"),
		StreamLatUs: rapid.SampledFrom([]int{0, 1000}).Draw(t, "slat"),
	}
	p.FaultMs = rapid.SampledFrom([]int{8000, 20000, 45000}).Draw(t, "faultms")
	ne := rapid.IntRange(0, 8).Draw(t, "nev")
	for i := 0; i < ne; i++ {
		e := Ev{AtMs: 3000 + rapid.IntRange(0, p.FaultMs-1000).Draw(t, "at")}
		e.Kind = rapid.SampledFrom([]string{"crash", "crash", "restart", "restart", "leave", "update", "update", "part", "heal"}).Draw(t, "kind")
		e.Node = rapid.IntRange(0, n-1).Draw(t, "node")
		if e.Kind == "part" {
			e.Mask = rapid.IntRange(1, (1<<n)-2).Draw(t, "mask")
			e.Asym = rapid.IntRange(0, 3).Draw(t, "asym") == 0
		}
		if e.Kind == "crash" {
			e.Host = rapid.Bool().Draw(t, "host")
			e.Unreach = rapid.IntRange(0, 3).Draw(t, "unreach") == 0
		}
		p.Events = append(p.Events, e)
	}
	sort.SliceStable(p.Events, func(i, j int) bool { return p.Events[i].AtMs < p.Events[j].AtMs })
	return p
}

var theT *testing.T

func runPlan(pl Plan) (res vfx.Result) {
	synctest.Test(theT, func(t *testing.T) { res = run(pl) })
	return
}

func detectionBound(cf cluster.Conf) time.Duration {
	P := time.Duration(cf.ProbeIntervalMs) * time.Millisecond
	A := time.Duration(cf.AwarenessMax)
	n := cf.N
	return time.Duration(2*(n-1)+2)*(A+1)*P + time.Duration(cf.SuspicionMaxMult)*cluster.SuspicionTimeoutModel(cf.SuspicionMult, n, P)
}

func run(pl Plan) (res vfx.Result) {
	labels := map[string]bool{}
	var hist []string
	var hmu sync.Mutex
	logf := func(f string, a ...any) {
		hmu.Lock()
		hist = append(hist, fmt.Sprintf(f, a...))
		hmu.Unlock()
	}
	done := func() vfx.Result {
		res.History = hist
		for l := range labels {
			res.Labels = append(res.Labels, l)
		}
		sort.Strings(res.Labels)
		return res
	}
	fail := func(f string, a ...any) vfx.Result { res.Err = fmt.Errorf(f, a...); return done() }

	c := cluster.New(pl.Seed)
	defer c.ShutdownAll()
	cf := pl.Conf
	n := cf.N
	nodes := make([]*cluster.Node, n)
	metaVer := make([]int, n)
	// formation on a perfect network
	for i := 0; i < n; i++ {
		nd, err := c.Start(cf.NodeConf(i))
		if err != nil {
			return fail("start: %v", err)
		}
		nodes[i] = nd
		if i > 0 {
			if _, err := nd.M.Join([]string{nodes[pl.JoinVia[i]].Addr()}); err != nil {
				logf("formation join n%d: %v", i, err)
			}
		}
		time.Sleep(100 * time.Millisecond)
	}
	time.Sleep(3*time.Second - time.Duration(n)*100*time.Millisecond)
	// ---- fault phase ----
	c.SetFaults(pl.Faults, true)
	type blk struct{ a, b string }
	var blocks []blk
	heal := func() {
		for _, b := range blocks {
			c.Net.Block(b.a, b.b, false)
		}
		blocks = nil
	}
	var wg sync.WaitGroup
	t0 := c.Net.Now()
	_ = t0
	for _, e := range pl.Events {
		wait := time.Duration(e.AtMs)*time.Millisecond - c.Net.Now()
		if wait > 0 {
			time.Sleep(wait)
		}
		nd := nodes[e.Node]
		switch e.Kind {
		case "crash":
			if nd.Running && !nd.Left { // a node in the middle of leaving is stopped by its own leave sequence
				if e.Unreach {
					c.CrashUnreachable(nd)
					labels["crash-unreachable"] = true
				} else {
					c.Crash(nd, e.Host)
				}
				labels["crash"] = true
				logf("%v crash n%d host=%v", c.Net.Now(), e.Node, e.Host)
			}
		case "restart":
			if !nd.Running && !nd.Left {
				nd.EP.SetDown(false)
				// the new process may come up with a different configuration (metadata) while peers still
				// hold the old record, possibly at the very same incarnation
				nd.Conf.Meta = []byte(fmt.Sprintf("meta-%d-life%d", e.Node, nd.Gen+1))
				if err := c.Restart(nd); err != nil {
					return fail("restart: %v", err)
				}
				metaVer[e.Node] = 0
				labels["restart"] = true
				logf("%v restart n%d", c.Net.Now(), e.Node)
				wg.Add(1)
				go func(nd *cluster.Node, i int) {
					defer wg.Done()
					// a restarted process joins through any member it is configured with; retry like an agent would
					for try := 0; try < 40 && nd.Running; try++ {
						for j := 0; j < n; j++ {
							k := (i + 1 + j + try) % n
							if k == i || !nodes[k].Running {
								continue
							}
							if _, err := nd.M.Join([]string{nodes[k].Addr()}); err == nil {
								logf("%v n%d rejoined via n%d", c.Net.Now(), i, k)
								return
							}
							break
						}
						time.Sleep(2 * time.Second)
					}
				}(nd, e.Node)
			}
		case "leave":
			if nd.Running && !nd.Left {
				labels["leave"] = true
				nd.Left = true
				wg.Add(1)
				go func(nd *cluster.Node, i int) {
					defer wg.Done()
					err := nd.M.Leave(3 * time.Second)
					logf("%v n%d Leave -> %v", c.Net.Now(), i, err)
					time.Sleep(200 * time.Millisecond)
					_ = nd.M.Shutdown()
					nd.Running = false
					c.Net.Remove(nd.EP)
				}(nd, e.Node)
			}
		case "update":
			if nd.Running && !nd.Left {
				metaVer[e.Node]++
				nd.Rec.SetMeta([]byte(fmt.Sprintf("meta-%d-%d", e.Node, metaVer[e.Node])))
				labels["update"] = true
				wg.Add(1)
				go func(nd *cluster.Node) {
					defer wg.Done()
					_ = nd.M.UpdateNode(2 * time.Second)
				}(nd)
			}
		case "part":
			for i := 0; i < n; i++ {
				for j := 0; j < n; j++ {
					if (e.Mask>>i)&1 == 1 && (e.Mask>>j)&1 == 0 {
						c.Net.Block(nodes[i].Addr(), nodes[j].Addr(), true)
						blocks = append(blocks, blk{nodes[i].Addr(), nodes[j].Addr()})
						if !e.Asym {
							c.Net.Block(nodes[j].Addr(), nodes[i].Addr(), true)
							blocks = append(blocks, blk{nodes[j].Addr(), nodes[i].Addr()})
						}
					}
				}
			}
			labels["partition"] = true
			logf("%v partition mask=%b asym=%v", c.Net.Now(), e.Mask, e.Asym)
		case "heal":
			heal()
		}
	}
	if w := time.Duration(3000+pl.FaultMs)*time.Millisecond - c.Net.Now(); w > 0 {
		time.Sleep(w)
	}
	// ---- faults stop ----
	heal()
	c.SetFaults(cluster.Faults{}, false)
	tStop := c.Net.Now()
	// let operations that were in flight when faults stopped finish (they belong to the faulty period)
	wg.Wait()
	c.Wait()
	var live []*cluster.Node
	for _, nd := range nodes {
		if nd.Running && !nd.Left {
			live = append(live, nd)
		}
	}
	liveNames := map[string]*cluster.Node{}
	for _, nd := range live {
		liveNames[nd.Name()] = nd
	}
	if len(live) < 2 {
		res.PrecondFalse = true
		labels["fewer-than-2-live"] = true
		return done()
	}
	// precondition: the live nodes' member lists connect them
	adj := map[string]map[string]bool{}
	for _, nd := range live {
		for _, m := range nd.M.Members() {
			if _, ok := liveNames[m.Name]; ok && m.Name != nd.Name() {
				if adj[nd.Name()] == nil {
					adj[nd.Name()] = map[string]bool{}
				}
				if adj[m.Name] == nil {
					adj[m.Name] = map[string]bool{}
				}
				adj[nd.Name()][m.Name] = true
				adj[m.Name][nd.Name()] = true
			}
		}
	}
	seen := map[string]bool{live[0].Name(): true}
	stack := []string{live[0].Name()}
	for len(stack) > 0 {
		x := stack[len(stack)-1]
		stack = stack[:len(stack)-1]
		for y := range adj[x] {
			if !seen[y] {
				seen[y] = true
				stack = append(stack, y)
			}
		}
	}
	if len(seen) != len(live) {
		res.PrecondFalse = true
		labels["precondition-false"] = true
		return done()
	}
	// was there any disagreement to repair?
	converged := func() (bool, string) {
		for _, nd := range live {
			got := map[string]string{}
			for _, m := range nd.M.Members() {
				got[m.Name] = string(m.Meta)
			}
			for name, owner := range liveNames {
				meta, ok := got[name]
				if !ok {
					return false, fmt.Sprintf("%s does not list live node %s", nd.Name(), name)
				}
				if want := string(owner.M.LocalNode().Meta); meta != want {
					return false, fmt.Sprintf("%s shows %s with metadata %q, its owner has %q", nd.Name(), name, meta, want)
				}
			}
			for name := range got {
				if _, ok := liveNames[name]; !ok {
					return false, fmt.Sprintf("%s lists %s which is not live", nd.Name(), name)
				}
			}
		}
		return true, ""
	}
	accused := func() (bool, string) {
		for _, nd := range live {
			d, err := c.Dump(nd)
			if err != nil {
				return true, fmt.Sprintf("dump %s: %v", nd.Name(), err)
			}
			for name := range liveNames {
				if r, ok := d[name]; ok && r.State != wire.StateAlive {
					return true, fmt.Sprintf("%s holds live node %s as %s", nd.Name(), name, wire.StateName(r.State))
				}
			}
		}
		return false, ""
	}
	ok0, why0 := converged()
	acc0, _ := accused()
	disagreement := !ok0 || acc0
	if disagreement {
		labels["disagreement-at-stop"] = true
	}
	B := detectionBound(cf)
	pp := time.Duration(cf.PushPullMs) * time.Millisecond
	capD := time.Duration(n)*B + 40*pp + 30*time.Second
	var why string
	settledAt := time.Duration(-1)
	for c.Net.Now() < tStop+capD {
		ok, w := converged()
		if ok {
			if a, w2 := accused(); !a {
				settledAt = c.Net.Now() - tStop
				break
			} else {
				w = w2
			}
		}
		why = w
		time.Sleep(time.Second)
	}
	if settledAt < 0 {
		// one more cap before reporting (the cap is a probabilistic bound)
		for c.Net.Now() < tStop+2*capD {
			ok, w := converged()
			if ok {
				if a, w2 := accused(); !a {
					settledAt = c.Net.Now() - tStop
					labels["needed-second-cap"] = true
					break
				} else {
					w = w2
				}
			}
			why = w
			time.Sleep(time.Second)
		}
	}
	if settledAt < 0 {
		for _, nd := range live {
			d, _ := c.Dump(nd)
			logf("DUMP %s %v health %d members %v", nd.Name(), d, nd.M.GetHealthScore(), nd.MemberNames())
			l := nd.Log.Lines
			if len(l) > 30 {
				l = l[len(l)-30:]
			}
			for _, x := range l {
				logf("LOG %s %s", nd.Name(), strings.TrimSpace(x))
			}
		}
	}
	if settledAt < 0 {
		// Classify the final state. A clean split - no live node holds any live node of
		// another group as alive or suspect - is the listed known finding C05-late-split
		// (a suspicion that was pending when faults stopped expires afterwards and the
		// refutation's small retransmit budget is spent on dead targets); anything else
		// is reported.
		if split, groups := cleanSplit(c, live); split && vfx.IsKnown("C05-late-split") {
			res.Known = "C05-late-split"
			labels["known:late-split"] = true
			logf("clean split into %v", groups)
			res.NonTrivial = true
			return done()
		}
		return fail("views did not converge within %v after faults stopped (cap %v): %s; live=%v; first disagreement %q\nhistory %v",
			c.Net.Now()-tStop, capD, why, keys(liveNames), why0, hist)
	}
	for _, nd := range live {
		if err := cluster.CheckEventLog(nd.M, nd.Rec, nd.Name()); err != nil {
			return fail("event log: %v", err)
		}
	}
	labels[fmt.Sprintf("n=%d", n)] = true
	labels[fmt.Sprintf("loss=%d", pl.Faults.LossPct)] = true
	switch {
	case settledAt < 5*time.Second:
		labels["settled<5s"] = true
	case settledAt < 60*time.Second:
		labels["settled<60s"] = true
	default:
		labels["settled>=60s"] = true
	}
	res.NonTrivial = disagreement
	res.Sub = map[string]int64{"settle_seconds": int64(settledAt / time.Second)}
	return done()
}

// cleanSplit reports whether the live nodes fall into >= 2 groups with no
// alive/suspect record across groups in either direction.
func cleanSplit(c *cluster.Cluster, live []*cluster.Node) (bool, [][]string) {
	idx := map[string]int{}
	for i, nd := range live {
		idx[nd.Name()] = i
	}
	parent := make([]int, len(live))
	for i := range parent {
		parent[i] = i
	}
	var find func(int) int
	find = func(x int) int {
		if parent[x] != x {
			parent[x] = find(parent[x])
		}
		return parent[x]
	}
	for i, nd := range live {
		d, err := c.Dump(nd)
		if err != nil {
			return false, nil
		}
		for name, r := range d {
			if j, ok := idx[name]; ok && j != i && (r.State == wire.StateAlive || r.State == wire.StateSuspect) {
				parent[find(i)] = find(j)
			}
		}
	}
	g := map[int][]string{}
	for i, nd := range live {
		g[find(i)] = append(g[find(i)], nd.Name())
	}
	var groups [][]string
	for _, v := range g {
		groups = append(groups, v)
	}
	return len(groups) >= 2, groups
}

func keys(m map[string]*cluster.Node) []string {
	var k []string
	for x := range m {
		k = append(k, x)
	}
	sort.Strings(k)
	return k
}

func TestConvergence(t *testing.T) {
	theT = t
	vfx.Check(t, genPlan, runPlan)
}
