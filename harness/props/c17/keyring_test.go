// C17 (a) — keyring integrity: rapid state machine over the public Keyring API
// against an ordered-set reference model.
package c17

import (
	"bytes"
	"fmt"
	"sort"
	"testing"

	"github.com/hashicorp/memberlist"
	"pgregory.net/rapid"

	"verif/harness/vfx"
)

func TestMain(m *testing.M) { vfx.Main(m) }

// Key pool: index -> key bytes. Valid lengths 16/24/32, invalid 0/15/17/33;
// indices 0..5 valid and distinct, 6 equals 0 by value (a duplicate supplied
// through a different slice), 7.. invalid.
func poolKey(i int) []byte {
	mk := func(n int, b byte) []byte {
		k := make([]byte, n)
		for j := range k {
			k[j] = b + byte(j)
		}
		return k
	}
	switch i {
	case 0:
		return mk(16, 10)
	case 1:
		return mk(16, 50)
	case 2:
		return mk(24, 90)
	case 3:
		return mk(32, 130)
	case 4:
		return mk(16, 170)
	case 5:
		return mk(32, 210)
	case 6:
		return mk(16, 10) // same value as 0
	case 7:
		return []byte{}
	case 8:
		return mk(15, 1)
	case 9:
		return mk(17, 2)
	case 10:
		return mk(33, 3)
	}
	return nil // nil key
}

const poolSize = 12

func validLen(k []byte) bool { return len(k) == 16 || len(k) == 24 || len(k) == 32 }

type KOp struct {
	Kind string // add | use | remove | getkeys | getprimary
	Key  int    `json:",omitempty"`
}

type KPlan struct {
	InitKeys    []int
	InitPrimary int // -1: none
	Ops         []KOp
}

func genKPlan(t *rapid.T) KPlan {
	p := KPlan{InitPrimary: -1}
	switch rapid.IntRange(0, 3).Draw(t, "init") {
	case 0: // empty ring
	case 1:
		p.InitPrimary = rapid.IntRange(0, poolSize-1).Draw(t, "primary")
	default:
		p.InitPrimary = rapid.IntRange(0, 6).Draw(t, "primary")
		p.InitKeys = rapid.SliceOfN(rapid.IntRange(0, 8), 0, 4).Draw(t, "keys")
	}
	p.Ops = rapid.SliceOfN(rapid.Custom(func(t *rapid.T) KOp {
		kind := rapid.SampledFrom([]string{"add", "add", "use", "remove", "remove", "getkeys", "getkeys", "getprimary"}).Draw(t, "kind")
		o := KOp{Kind: kind}
		if kind == "add" || kind == "use" || kind == "remove" {
			o.Key = rapid.IntRange(0, poolSize-1).Draw(t, "key")
		}
		return o
	}), 0, 30).Draw(t, "ops")
	return p
}

type snapshot struct {
	got  [][]byte // slice as returned (aliased)
	copy [][]byte // deep copy at return time
	at   string
}

func deepCopy(k [][]byte) [][]byte {
	out := make([][]byte, len(k))
	for i := range k {
		out[i] = append([]byte(nil), k[i]...)
	}
	return out
}

func equalKeys(a, b [][]byte) bool {
	if len(a) != len(b) {
		return false
	}
	for i := range a {
		if !bytes.Equal(a[i], b[i]) {
			return false
		}
	}
	return true
}

func find(ring [][]byte, k []byte) int {
	for i := range ring {
		if bytes.Equal(ring[i], k) {
			return i
		}
	}
	return -1
}

func runKPlan(p KPlan) (res vfx.Result) {
	labels := map[string]bool{}
	var hist []string
	err := vfx.Guard(func() error {
		var model [][]byte // model[0] is the primary
		var kr *memberlist.Keyring
		// --- construction ---
		var keys [][]byte
		for _, i := range p.InitKeys {
			keys = append(keys, poolKey(i))
		}
		var prim []byte
		if p.InitPrimary >= 0 {
			prim = poolKey(p.InitPrimary)
		}
		wantErr := false
		if len(keys) > 0 || len(prim) > 0 {
			if len(prim) == 0 || !validLen(prim) {
				wantErr = true
			}
			for _, k := range keys {
				if !validLen(k) {
					wantErr = true
				}
			}
			if !wantErr {
				model = append(model, prim)
				for _, k := range keys {
					if find(model, k) < 0 {
						model = append(model, k)
					}
				}
			}
		}
		var err error
		kr, err = memberlist.NewKeyring(keys, prim)
		if wantErr {
			if err == nil {
				return fmt.Errorf("NewKeyring(keys=%v, primary=%d) accepted invalid input (ring %x)", p.InitKeys, p.InitPrimary, kr.GetKeys())
			}
			labels["ctor-rejected"] = true
			// continue with an empty ring so the sequence is still exercised
			kr, _ = memberlist.NewKeyring(nil, nil)
			model = nil
		} else if err != nil {
			return fmt.Errorf("NewKeyring(keys=%v, primary=%d) failed: %v", p.InitKeys, p.InitPrimary, err)
		}
		if len(model) == 0 {
			labels["start-empty"] = true
		}

		var held []snapshot
		invariant := func(step string) error {
			got := kr.GetKeys()
			pk := kr.GetPrimaryKey()
			if len(model) == 0 {
				if len(got) != 0 || pk != nil {
					return fmt.Errorf("%s: ring should be empty, GetKeys=%x GetPrimaryKey=%x", step, got, pk)
				}
			} else {
				if len(got) == 0 || !bytes.Equal(got[0], model[0]) {
					return fmt.Errorf("%s: primary is not first: GetKeys=%x, model primary %x", step, got, model[0])
				}
				if !bytes.Equal(pk, model[0]) {
					return fmt.Errorf("%s: GetPrimaryKey=%x, model primary %x", step, pk, model[0])
				}
			}
			if len(got) != len(model) {
				return fmt.Errorf("%s: ring has %d keys %x, model has %d %x", step, len(got), got, len(model), model)
			}
			for i, k := range got {
				if !validLen(k) {
					return fmt.Errorf("%s: invalid-length key installed: %x", step, k)
				}
				if find(got[:i], k) >= 0 {
					return fmt.Errorf("%s: duplicate key installed: %x in %x", step, k, got)
				}
				if find(model, k) < 0 {
					return fmt.Errorf("%s: key %x installed but not in model %x", step, k, model)
				}
			}
			for _, s := range held {
				if !equalKeys(s.got, s.copy) {
					return fmt.Errorf("%s: key list returned by GetKeys at [%s] was altered afterwards: was %x, now %x", step, s.at, s.copy, s.got)
				}
			}
			return nil
		}
		if err := invariant("after construction"); err != nil {
			return err
		}
		for i, op := range p.Ops {
			step := fmt.Sprintf("op %d %s(%d)", i, op.Kind, op.Key)
			k := poolKey(op.Key)
			switch op.Kind {
			case "add":
				err := kr.AddKey(k)
				if !validLen(k) {
					if err == nil {
						return fmt.Errorf("%s: AddKey accepted a %d-byte key", step, len(k))
					}
					labels["add-invalid"] = true
				} else {
					if err != nil {
						return fmt.Errorf("%s: AddKey failed for a valid key: %v", step, err)
					}
					if find(model, k) < 0 {
						model = append(model[:len(model):len(model)], k)
					} else {
						labels["add-duplicate"] = true
					}
				}
			case "use":
				err := kr.UseKey(k)
				j := find(model, k)
				if j < 0 {
					if err == nil {
						return fmt.Errorf("%s: UseKey made a key primary that is not installed", step)
					}
					labels["use-absent"] = true
				} else {
					if err != nil {
						return fmt.Errorf("%s: UseKey failed for an installed key: %v", step, err)
					}
					nm := [][]byte{model[j]}
					for x, mk := range model {
						if x != j {
							nm = append(nm, mk)
						}
					}
					model = nm
				}
			case "remove":
				if len(model) == 0 {
					labels["remove-on-empty"] = true
				}
				err := kr.RemoveKey(k)
				j := find(model, k)
				switch {
				case j == 0:
					if err == nil {
						return fmt.Errorf("%s: RemoveKey removed the primary key", step)
					}
					labels["remove-primary"] = true
				case j > 0:
					if err != nil {
						return fmt.Errorf("%s: RemoveKey failed for an installed secondary key: %v", step, err)
					}
					if len(held) > 0 {
						res.NonTrivial = true
						labels["remove-while-getkeys-held"] = true
						if j < len(model)-1 {
							labels["remove-middle-while-held"] = true
						}
					}
					nm := append([][]byte{}, model[:j]...)
					model = append(nm, model[j+1:]...)
				default:
					if err != nil {
						return fmt.Errorf("%s: RemoveKey of an absent key returned an error: %v", step, err)
					}
					labels["remove-absent"] = true
				}
			case "getkeys":
				g := kr.GetKeys()
				held = append(held, snapshot{got: g, copy: deepCopy(g), at: step})
			case "getprimary":
				_ = kr.GetPrimaryKey()
			}
			if err := invariant(step); err != nil {
				return err
			}
			hist = append(hist, fmt.Sprintf("%s -> %d keys", step, len(model)))
		}
		return nil
	})
	for l := range labels {
		res.Labels = append(res.Labels, l)
	}
	sort.Strings(res.Labels)
	res.Err = err
	res.History = hist
	if labels["remove-on-empty"] || labels["remove-primary"] || labels["use-absent"] || labels["add-duplicate"] {
		res.NonTrivial = true
	}
	return
}

func TestKeyringModel(t *testing.T) { vfx.Check(t, genKPlan, runKPlan) }
