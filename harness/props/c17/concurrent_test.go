package c17

import (
	"bytes"
	"fmt"
	"runtime"
	"sort"
	"strings"
	"sync"
	"sync/atomic"
	"testing"

	"github.com/hashicorp/memberlist"
	"pgregory.net/rapid"

	"verif/harness/vfx"
)

// Concurrent keyring calls on ONE ring. The keyring is guarded by a mutex, so every call must take effect atomically:
// whatever the threads observed (each call's error, each GetKeys/GetPrimaryKey answer) and the ring they leave behind
// must be explained by SOME sequential order of the calls that respects each thread's own order (the calls of different
// threads all overlap). The oracle enumerates those orders against the sequential model of keyring_test.go. A call that
// reads under the lock, lets go and acts later (check-then-act) produces outcomes no order explains - e.g. UseKey(k) and
// RemoveKey(k) both succeeding, which would remove the primary key.
//
// The window of such a slip is a few instructions wide; every generated plan is therefore run many times (fresh ring,
// threads released together) and the first unexplained outcome is reported.

type CPlan struct {
	Init    []int // installed keys (pool indices 0..3); Init[0] is the primary
	Threads [][]KOp
}

func genCPlan(t *rapid.T) CPlan {
	p := CPlan{}
	n := rapid.IntRange(1, 3).Draw(t, "ninit")
	perm := rapid.Permutation([]int{0, 1, 2, 3}).Draw(t, "perm")
	p.Init = perm[:n]
	nt := rapid.IntRange(2, 3).Draw(t, "threads")
	for i := 0; i < nt; i++ {
		ops := rapid.SliceOfN(rapid.Custom(func(t *rapid.T) KOp {
			kind := rapid.SampledFrom([]string{"add", "use", "use", "remove", "remove", "getkeys", "getprimary"}).Draw(t, "kind")
			o := KOp{Kind: kind}
			if kind == "add" || kind == "use" || kind == "remove" {
				// mostly the same two keys, so that the threads collide
				o.Key = rapid.SampledFrom([]int{1, 1, 1, 2, 0, 3}).Draw(t, "key")
			}
			return o
		}), 1, 3).Draw(t, "ops")
		p.Threads = append(p.Threads, ops)
	}
	return p
}

// sequential model: ring[0] is the primary
func applyModel(ring [][]byte, o KOp) (out [][]byte, result string) {
	k := poolKey(o.Key)
	switch o.Kind {
	case "add":
		if find(ring, k) >= 0 {
			return ring, "ok"
		}
		return append(append([][]byte(nil), ring...), k), "ok"
	case "use":
		i := find(ring, k)
		if i < 0 {
			return ring, "err"
		}
		nr := [][]byte{k}
		for j, x := range ring {
			if j != i {
				nr = append(nr, x)
			}
		}
		return nr, "ok"
	case "remove":
		i := find(ring, k)
		if i == 0 {
			return ring, "err" // the primary is never removed
		}
		if i < 0 {
			return ring, "ok"
		}
		nr := append([][]byte(nil), ring[:i]...)
		return append(nr, ring[i+1:]...), "ok"
	case "getkeys":
		return ring, "keys:" + ringString(ring)
	case "getprimary":
		if len(ring) == 0 {
			return ring, "primary:"
		}
		return ring, "primary:" + fmt.Sprintf("%x", ring[0][:2])
	}
	return ring, "?"
}

func ringString(r [][]byte) string {
	var b strings.Builder
	for _, k := range r {
		fmt.Fprintf(&b, "%x,", k[:2])
	}
	return b.String()
}

// explained reports whether some interleaving of the threads (program order kept) yields exactly the observed results
// and final ring. GetKeys results are compared as sets plus the primary (the order of secondary keys is unspecified).
func explained(init [][]byte, threads [][]KOp, results [][]string, final [][]byte) bool {
	pos := make([]int, len(threads))
	var rec func(ring [][]byte) bool
	rec = func(ring [][]byte) bool {
		doneAll := true
		for t := range threads {
			if pos[t] >= len(threads[t]) {
				continue
			}
			doneAll = false
			o := threads[t][pos[t]]
			nr, r := applyModel(ring, o)
			if !sameResult(r, results[t][pos[t]]) {
				continue
			}
			pos[t]++
			if rec(nr) {
				pos[t]--
				return true
			}
			pos[t]--
		}
		if doneAll {
			return sameRing(ring, final)
		}
		return false
	}
	return rec(init)
}

func sameResult(model, got string) bool {
	if strings.HasPrefix(model, "keys:") && strings.HasPrefix(got, "keys:") {
		return sameKeyList(strings.TrimPrefix(model, "keys:"), strings.TrimPrefix(got, "keys:"))
	}
	return model == got
}

func sameKeyList(a, b string) bool {
	as, bs := strings.Split(strings.TrimSuffix(a, ","), ","), strings.Split(strings.TrimSuffix(b, ","), ",")
	if len(as) != len(bs) || as[0] != bs[0] {
		return false
	}
	sort.Strings(as)
	sort.Strings(bs)
	return strings.Join(as, ",") == strings.Join(bs, ",")
}

func sameRing(a, b [][]byte) bool { return sameKeyList(ringString(a), ringString(b)) }

func runCPlan(pl CPlan) (res vfx.Result) {
	var init [][]byte
	for _, i := range pl.Init {
		init = append(init, poolKey(i))
	}
	reps := vfx.EnvInt("VF_C17_REPS", 400)
	if vfx.Thorough() {
		reps = vfx.EnvInt("VF_C17_REPS", 4000)
	}
	collide := false
	for a := range pl.Threads {
		for b := range pl.Threads {
			if a == b {
				continue
			}
			for _, x := range pl.Threads[a] {
				for _, y := range pl.Threads[b] {
					if x.Key == y.Key && ((x.Kind == "use" && y.Kind == "remove") || (x.Kind == "add" && y.Kind == "remove") || (x.Kind == "use" && y.Kind == "use")) {
						collide = true
					}
				}
			}
		}
	}
	res.NonTrivial = collide
	if collide {
		res.Labels = append(res.Labels, "colliding-writes")
	}
	seen := map[string]bool{}
	for rep := 0; rep < reps; rep++ {
		kr, err := memberlist.NewKeyring(init[1:], init[0])
		if err != nil {
			res.Err = fmt.Errorf("NewKeyring: %v", err)
			return
		}
		results := make([][]string, len(pl.Threads))
		var ready sync.WaitGroup
		var wg sync.WaitGroup
		var goFlag atomic.Bool
		var panicked atomic.Value
		for t := range pl.Threads {
			results[t] = make([]string, len(pl.Threads[t]))
			ready.Add(1)
			wg.Add(1)
			go func(t int) {
				defer wg.Done()
				defer func() {
					if r := recover(); r != nil {
						panicked.Store(fmt.Sprintf("thread %d panicked: %v", t, r))
					}
				}()
				ready.Done()
				for spin := 0; !goFlag.Load(); spin++ {
					if spin%2000 == 1999 {
						runtime.Gosched()
					}
				}
				for i, o := range pl.Threads[t] {
					k := poolKey(o.Key)
					switch o.Kind {
					case "add":
						results[t][i] = errString(kr.AddKey(k))
					case "use":
						results[t][i] = errString(kr.UseKey(k))
					case "remove":
						results[t][i] = errString(kr.RemoveKey(k))
					case "getkeys":
						results[t][i] = "keys:" + ringString(kr.GetKeys())
					case "getprimary":
						p := kr.GetPrimaryKey()
						if p == nil {
							results[t][i] = "primary:"
						} else {
							results[t][i] = "primary:" + fmt.Sprintf("%x", p[:2])
						}
					}
				}
			}(t)
		}
		ready.Wait()
		goFlag.Store(true)
		wg.Wait()
		if p := panicked.Load(); p != nil {
			res.Err = fmt.Errorf("%v (plan %+v)", p, pl)
			return
		}
		final := kr.GetKeys()
		sig := fmt.Sprint(results, ringString(final))
		if seen[sig] {
			continue
		}
		seen[sig] = true
		// structural invariants of the final ring
		if len(final) == 0 || !bytes.Equal(final[0], kr.GetPrimaryKey()) {
			res.Err = fmt.Errorf("after the concurrent calls the ring %s does not start with the primary %x", ringString(final), kr.GetPrimaryKey())
			return
		}
		for i := range final {
			for j := i + 1; j < len(final); j++ {
				if bytes.Equal(final[i], final[j]) {
					res.Err = fmt.Errorf("after the concurrent calls the ring holds a key twice: %s", ringString(final))
					return
				}
			}
		}
		if !explained(init, pl.Threads, results, final) {
			res.Err = fmt.Errorf("no sequential order of the calls explains what the threads observed (repetition %d):\n  initial ring %s\n  threads %+v\n  results %v\n  final ring %s", rep, ringString(init), pl.Threads, results, ringString(final))
			return
		}
	}
	res.Sub = map[string]int64{"distinct-outcomes": int64(len(seen)), "repetitions": int64(reps)}
	return
}

func errString(err error) string {
	if err != nil {
		return "err"
	}
	return "ok"
}

func TestKeyringConcurrent(t *testing.T) { vfx.Check(t, genCPlan, runCPlan) }
