package c17

import (
	"bytes"
	"fmt"
	"sort"
	"sync"
	"testing"
	"testing/synctest"
	"time"

	"pgregory.net/rapid"

	"verif/harness/cluster"
	"verif/harness/puppet"
	"verif/harness/vfx"
	"verif/harness/wire"
)

// C17 (b) — zero-downtime key rotation: install-new-everywhere, then
// use-new-everywhere, then remove-old-everywhere, each node performing its
// step of a phase at its own generated instant, with traffic running.

type RPlan struct {
	Seed    uint64
	N       int
	KeyOld  int
	KeyNew  int
	Label   string
	StepsMs [3][]int // per phase, per node: delay after the phase opens
	Sends   int
}

func genRPlan(t *rapid.T) RPlan {
	p := RPlan{Seed: rapid.Uint64Range(1, 1<<40).Draw(t, "seed"), N: rapid.IntRange(2, 6).Draw(t, "n"),
		KeyOld: rapid.SampledFrom([]int{16, 24, 32}).Draw(t, "kold"), KeyNew: rapid.SampledFrom([]int{16, 24, 32}).Draw(t, "knew"),
		Label: rapid.SampledFrom([]string{"", "rot"}).Draw(t, "label"), Sends: rapid.IntRange(3, 10).Draw(t, "sends")}
	for ph := 0; ph < 3; ph++ {
		for i := 0; i < p.N; i++ {
			p.StepsMs[ph] = append(p.StepsMs[ph], rapid.SampledFrom([]int{0, 1, 50, 333, 1200, 2500}).Draw(t, "step"))
		}
	}
	return p
}

var theT *testing.T

func runRPlan(pl RPlan) (res vfx.Result) {
	synctest.Test(theT, func(t *testing.T) { res = runR(pl) })
	return
}

func mkKey(n int, tag byte) []byte {
	k := make([]byte, n)
	for i := range k {
		k[i] = tag + byte(i)
	}
	return k
}

func runR(pl RPlan) (res vfx.Result) {
	labels := map[string]bool{}
	var hist []string
	done := func() vfx.Result {
		res.History = hist
		for l := range labels {
			res.Labels = append(res.Labels, l)
		}
		sort.Strings(res.Labels)
		return res
	}
	fail := func(f string, a ...any) vfx.Result { res.Err = fmt.Errorf(f, a...); return done() }
	c := cluster.New(pl.Seed)
	defer c.ShutdownAll()
	oldK, newK := mkKey(pl.KeyOld, 1), mkKey(pl.KeyNew, 99)
	n := pl.N
	nodes := make([]*cluster.Node, n)
	for i := 0; i < n; i++ {
		nc := puppet.NodeConf{Name: fmt.Sprintf("n%d", i), IP: fmt.Sprintf("10.0.0.%d", i+1), Port: 7946, Keys: [][]byte{oldK}, Label: pl.Label,
			IndirectChecks: 2, ProbeIntervalMs: 400, ProbeTimeoutMs: 150, GossipIntervalMs: 100, PushPullMs: 1500, SuspicionMult: 3}
		nd, err := c.Start(nc)
		if err != nil {
			return fail("start: %v", err)
		}
		nodes[i] = nd
		if i > 0 {
			if _, err := nd.M.Join([]string{nodes[0].Addr()}); err != nil {
				return fail("join: %v", err)
			}
		}
	}
	var mu sync.Mutex
	var firstErr error
	setErr := func(e error) {
		mu.Lock()
		if firstErr == nil {
			firstErr = e
		}
		mu.Unlock()
	}
	// invariant over the keyrings: every sender's primary is installed at every receiver
	pairwise := func(where string) {
		for i, a := range nodes {
			pk := a.MC.Keyring.GetPrimaryKey()
			for j, b := range nodes {
				ok := false
				for _, k := range b.MC.Keyring.GetKeys() {
					if bytes.Equal(k, pk) {
						ok = true
					}
				}
				if !ok {
					setErr(fmt.Errorf("%s: the primary key of n%d is not installed on n%d: those two cannot talk", where, i, j))
				}
			}
		}
	}
	var sent [][]byte
	var sentTo []int
	stopTraffic := make(chan struct{})
	var twg sync.WaitGroup
	twg.Add(1)
	go func() {
		defer twg.Done()
		k := 0
		for {
			select {
			case <-stopTraffic:
				return
			case <-time.After(700 * time.Millisecond):
			}
			from := nodes[k%n]
			to := nodes[(k+1)%n]
			var toNode = from.M.LocalNode()
			for _, m := range from.M.Members() {
				if m.Name == to.Name() {
					toNode = m
				}
			}
			msg := []byte(fmt.Sprintf("msg-%d-from-%d", k, k%n))
			if k%2 == 0 {
				_ = from.M.SendBestEffort(toNode, msg)
			} else {
				if err := from.M.SendReliable(toNode, msg); err != nil {
					setErr(fmt.Errorf("SendReliable n%d->n%d failed during rotation: %v", k%n, (k+1)%n, err))
				}
			}
			mu.Lock()
			sent = append(sent, msg)
			sentTo = append(sentTo, (k+1)%n)
			mu.Unlock()
			k++
		}
	}()
	time.Sleep(time.Second)
	phases := []struct {
		name string
		do   func(nd *cluster.Node) error
	}{
		{"install-new", func(nd *cluster.Node) error { return nd.MC.Keyring.AddKey(newK) }},
		{"use-new", func(nd *cluster.Node) error { return nd.MC.Keyring.UseKey(newK) }},
		{"remove-old", func(nd *cluster.Node) error { return nd.MC.Keyring.RemoveKey(oldK) }},
	}
	differentOrder := false
	for ph, phase := range phases {
		var wg sync.WaitGroup
		order := make([]int, 0, n)
		for i := 0; i < n; i++ {
			i := i
			wg.Add(1)
			go func() {
				defer wg.Done()
				time.Sleep(time.Duration(pl.StepsMs[ph][i]) * time.Millisecond)
				if err := phase.do(nodes[i]); err != nil {
					setErr(fmt.Errorf("%s on n%d: %v", phase.name, i, err))
				}
				mu.Lock()
				order = append(order, i)
				mu.Unlock()
				pairwise(fmt.Sprintf("after %s on n%d at %v", phase.name, i, c.Net.Now()))
			}()
		}
		wg.Wait()
		for i := 1; i < len(order); i++ {
			if order[i] < order[i-1] {
				differentOrder = true
			}
		}
		hist = append(hist, fmt.Sprintf("%v phase %s done, order %v", c.Net.Now(), phase.name, order))
		time.Sleep(1200 * time.Millisecond) // traffic under the completed phase
	}
	close(stopTraffic)
	twg.Wait()
	time.Sleep(2 * time.Second)
	c.Wait()
	mu.Lock()
	fe := firstErr
	mu.Unlock()
	if fe != nil {
		return fail("%v", fe)
	}
	// behavioural oracle: healthy throughout
	for i, nd := range nodes {
		if len(nd.MemberNames()) != n {
			return fail("n%d lists %v after the rotation", i, nd.MemberNames())
		}
		if hs := nd.M.GetHealthScore(); hs != 0 {
			return fail("n%d health score %d after the rotation", i, hs)
		}
		for _, e := range nd.Rec.Events() {
			if e.Kind == "leave" {
				return fail("n%d delivered %v during the rotation", i, e)
			}
		}
		ks := nd.MC.Keyring.GetKeys()
		if len(ks) != 1 || !bytes.Equal(ks[0], newK) {
			return fail("n%d ends with keyring %x", i, ks)
		}
	}
	finalCodec := wire.Codec{Label: pl.Label, Keys: [][]byte{oldK, newK}}
	tap, _, err := c.DecodeTap(0, finalCodec)
	if err != nil {
		return fail("wire: %v", err)
	}
	for _, m := range tap {
		if m.Leaf.Type == wire.SuspectMsg {
			return fail("suspicion during the rotation at %v: %v", m.T, m.Leaf)
		}
	}
	// every user message reached its addressee exactly once
	for k, msg := range sent {
		cnt := 0
		for _, e := range nodes[sentTo[k]].Rec.Events() {
			if e.Kind == "msg" && bytes.Equal(e.Data, msg) {
				cnt++
			}
		}
		if cnt != 1 {
			return fail("user message %q sent to n%d during the rotation was delivered %d times", msg, sentTo[k], cnt)
		}
	}
	if differentOrder {
		labels["different-step-order"] = true
	}
	res.NonTrivial = differentOrder || n >= 3
	res.Sub = map[string]int64{"user_messages": int64(len(sent))}
	return done()
}

func TestKeyRotation(t *testing.T) {
	theT = t
	vfx.Check(t, genRPlan, runRPlan)
}
