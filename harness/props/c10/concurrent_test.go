package c10

import (
	"fmt"
	"sync"
	"sync/atomic"
	"testing"

	"github.com/hashicorp/memberlist"
	"pgregory.net/rapid"

	"verif/harness/vfx"
)

// Several goroutines use one queue at once (memberlist does: gossip, probe piggybacking, membership handlers and the
// user's own broadcasts all reach it). Whatever the interleaving, the accounting must add up: a completion callback
// never runs twice, everything that was queued is either still queued or has completed exactly once, a retrieval
// never returns the same broadcast twice nor exceeds its byte limit, at most one broadcast per name is queued at
// quiescence, nothing panics - and the race-detector build sees no unsynchronised access.

type COp struct {
	Kind  string
	Name  string
	Len   int
	Limit int
	K     int
}

type CPlan struct {
	Mult    int
	N       int
	Threads [][]COp
	Reps    int
}

func genCPlan(t *rapid.T) CPlan {
	p := CPlan{Mult: rapid.IntRange(1, 4).Draw(t, "mult"), N: rapid.SampledFrom([]int{1, 9, 10, 99, 1000}).Draw(t, "n"), Reps: rapid.IntRange(20, 200).Draw(t, "reps")}
	nt := rapid.IntRange(2, 4).Draw(t, "threads")
	for i := 0; i < nt; i++ {
		p.Threads = append(p.Threads, rapid.SliceOfN(rapid.Custom(func(t *rapid.T) COp {
			switch rapid.SampledFrom([]string{"queue", "queue", "queue", "get", "get", "prune", "reset", "num"}).Draw(t, "op") {
			case "queue":
				return COp{Kind: "queue", Name: rapid.SampledFrom([]string{"a", "b", "", ""}).Draw(t, "name"), Len: rapid.SampledFrom(lens).Draw(t, "len")}
			case "get":
				return COp{Kind: "get", Limit: rapid.SampledFrom([]int{0, 5, 30, 300, 100000}).Draw(t, "limit")}
			case "prune":
				return COp{Kind: "prune", K: rapid.IntRange(0, 4).Draw(t, "k")}
			case "reset":
				return COp{Kind: "reset"}
			}
			return COp{Kind: "num"}
		}), 1, 6).Draw(t, "ops"))
	}
	return p
}

type cb struct {
	name     string
	msg      []byte
	finished atomic.Int32
}

func (b *cb) Message() []byte { return b.msg }
func (b *cb) Finished()       { b.finished.Add(1) }

type cnamed struct{ *cb }

func (b cnamed) Name() string { return b.name }
func (b cnamed) Invalidates(o memberlist.Broadcast) bool {
	nb, ok := o.(memberlist.NamedBroadcast)
	return ok && nb.Name() == b.name
}

type cunique struct{ *cb }

func (b cunique) UniqueBroadcast()                      {}
func (b cunique) Invalidates(memberlist.Broadcast) bool { return false }

func runCPlan(p CPlan) (res vfx.Result) {
	res.NonTrivial = true
	for rep := 0; rep < p.Reps; rep++ {
		q := &memberlist.TransmitLimitedQueue{RetransmitMult: p.Mult, NumNodes: func() int { return p.N }}
		var mu sync.Mutex
		var all []*cb
		var firstErr error
		fail := func(e error) {
			mu.Lock()
			if firstErr == nil {
				firstErr = e
			}
			mu.Unlock()
		}
		var wg sync.WaitGroup
		start := make(chan struct{})
		for ti, ops := range p.Threads {
			ti, ops := ti, ops
			wg.Add(1)
			go func() {
				defer wg.Done()
				<-start
				err := vfx.Guard(func() error {
					for oi, op := range ops {
						switch op.Kind {
						case "queue":
							b := &cb{name: op.Name, msg: make([]byte, op.Len, op.Len+1)}
							mu.Lock()
							all = append(all, b)
							mu.Unlock()
							if op.Name != "" {
								q.QueueBroadcast(cnamed{b})
							} else {
								q.QueueBroadcast(cunique{b})
							}
						case "get":
							got := q.GetBroadcasts(1, op.Limit)
							sum := 0
							seen := map[*byte]bool{}
							for _, g := range got {
								sum += len(g) + 1
								k := &g[:1][0]
								if seen[k] {
									return fmt.Errorf("thread %d op %d: one retrieval returned the same broadcast twice", ti, oi)
								}
								seen[k] = true
							}
							if sum > op.Limit && len(got) > 0 {
								return fmt.Errorf("thread %d op %d: GetBroadcasts(1,%d) returned %d bytes incl. overhead", ti, oi, op.Limit, sum)
							}
						case "prune":
							q.Prune(op.K)
						case "reset":
							q.Reset()
						case "num":
							if n := q.NumQueued(); n < 0 {
								return fmt.Errorf("NumQueued() = %d", n)
							}
						}
					}
					return nil
				})
				if err != nil {
					fail(err)
				}
			}()
		}
		close(start)
		wg.Wait()
		if firstErr != nil {
			res.Err = fmt.Errorf("repetition %d: %v", rep, firstErr)
			return
		}
		// quiescent accounting
		pending := 0
		for i, b := range all {
			switch f := b.finished.Load(); {
			case f > 1:
				res.Err = fmt.Errorf("repetition %d: Finished() of broadcast %d (name %q, %d bytes) ran %d times", rep, i, b.name, len(b.msg), f)
				return
			case f == 0:
				pending++
			}
		}
		if n := q.NumQueued(); n != pending {
			res.Err = fmt.Errorf("repetition %d: %d broadcasts have not completed but NumQueued() = %d (queued %d in all)", rep, pending, n, len(all))
			return
		}
		names := map[string]int{}
		for _, g := range q.GetBroadcasts(0, 1<<30) {
			for _, b := range all {
				if cap(b.msg) > 0 && &b.msg[:1][0] == &g[:1][0] && b.name != "" {
					names[b.name]++
				}
			}
		}
		for n, c := range names {
			if c > 1 {
				res.Err = fmt.Errorf("repetition %d: %d broadcasts named %q queued at quiescence", rep, c, n)
				return
			}
		}
		q.Reset()
		for i, b := range all {
			if f := b.finished.Load(); f != 1 {
				res.Err = fmt.Errorf("repetition %d: after Reset, Finished() of broadcast %d (name %q) ran %d times", rep, i, b.name, f)
				return
			}
		}
	}
	return
}

func TestQueueConcurrent(t *testing.T) { vfx.Check(t, genCPlan, runCPlan) }
