// C10 — broadcast queue: no silent loss, exactly-once completion, bounded
// retransmits. Pure public API (TransmitLimitedQueue), rapid-generated
// operation sequences against a list-based reference model.
package c10

import (
	"fmt"
	"math"
	"sort"
	"strings"
	"testing"
	"time"
	"unsafe"

	"github.com/hashicorp/memberlist"
	"pgregory.net/rapid"

	"verif/harness/vfx"
)

func TestMain(m *testing.M) { vfx.Main(m) }

// ---- plan -------------------------------------------------------------------

type Op struct {
	Kind     string // queue | get | prune | reset | num | setn
	BKind    string `json:",omitempty"` // named | unique | plain
	Name     string `json:",omitempty"`
	Len      int    `json:",omitempty"`
	Tag      int    `json:",omitempty"` // plain: own tag
	InvTag   int    `json:",omitempty"` // plain: tag it invalidates (-1 none)
	Overhead int    `json:",omitempty"`
	Limit    int    `json:",omitempty"`
	K        int    `json:",omitempty"` // prune retain
	Hook     string `json:",omitempty"` // queue: when this broadcast completes, another goroutine calls requeue | reset | prune while the callback is still running
	N        int    `json:",omitempty"` // setn value
}

type Plan struct {
	Mult int
	N    int
	Ops  []Op
}

var (
	names   = []string{"a", "b", "c", ""}
	lens    = []int{0, 1, 2, 10, 10, 100}
	nvalues = []int{0, 1, 9, 10, 99, 1000}
)

func genOp(t *rapid.T) Op {
	switch rapid.SampledFrom([]string{"queue", "queue", "queue", "get", "get", "get", "prune", "reset", "num", "setn", "queue", "queue", "get", "get", "prune", "bulk"}).Draw(t, "op") {
	case "bulk":
		// a backlog: the ordered structure behind the queue grows past a single node
		return Op{Kind: "bulk", N: rapid.SampledFrom([]int{40, 64, 65, 130, 300}).Draw(t, "count"), Len: rapid.SampledFrom([]int{0, 1, 10}).Draw(t, "len")}
	case "queue":
		o := Op{Kind: "queue"}
		o.BKind = rapid.SampledFrom([]string{"named", "named", "unique", "plain"}).Draw(t, "bkind")
		o.Len = rapid.SampledFrom(lens).Draw(t, "len")
		switch o.BKind {
		case "named":
			o.Name = rapid.SampledFrom(names).Draw(t, "name")
		case "plain":
			o.Tag = rapid.IntRange(0, 2).Draw(t, "tag")
			o.InvTag = rapid.IntRange(-1, 2).Draw(t, "inv")
		}
		if rapid.IntRange(0, 5).Draw(t, "hooked") == 0 {
			o.Hook = rapid.SampledFrom([]string{"requeue", "requeue", "reset", "prune"}).Draw(t, "hook")
			o.K = rapid.IntRange(0, 3).Draw(t, "hk")
		}
		return o
	case "get":
		lim := rapid.OneOf(rapid.IntRange(0, 30), rapid.IntRange(0, 300), rapid.Just(100000)).Draw(t, "limit")
		return Op{Kind: "get", Overhead: rapid.IntRange(0, 3).Draw(t, "overhead"), Limit: lim}
	case "prune":
		return Op{Kind: "prune", K: rapid.OneOf(rapid.IntRange(0, 6), rapid.IntRange(0, 6), rapid.SampledFrom([]int{10, 32, 63, 64, 100})).Draw(t, "k")}
	case "reset":
		return Op{Kind: "reset"}
	case "setn":
		return Op{Kind: "setn", N: rapid.SampledFrom(nvalues).Draw(t, "n")}
	}
	return Op{Kind: "num"}
}

func genPlan(t *rapid.T) Plan {
	return Plan{
		Mult: rapid.IntRange(0, 4).Draw(t, "mult"),
		N:    rapid.SampledFrom(nvalues).Draw(t, "n0"),
		Ops:  rapid.SliceOfN(rapid.Custom(genOp), 0, 40).Draw(t, "ops"),
	}
}

// ---- broadcasts -------------------------------------------------------------

type bcast struct {
	seq      int
	kind     string
	name     string
	tag, inv int
	msg      []byte
	finished int
	onFinish func()
}

func (b *bcast) Message() []byte { return b.msg }
func (b *bcast) Finished() {
	b.finished++
	if b.onFinish != nil {
		b.onFinish()
	}
}

type named struct{ *bcast }

func (b named) Name() string { return b.name }

// Invalidates as documented for NamedBroadcast: same name as another named one.
func (b named) Invalidates(o memberlist.Broadcast) bool {
	nb, ok := o.(memberlist.NamedBroadcast)
	return ok && nb.Name() == b.name
}

type unique struct{ *bcast }

func (b unique) UniqueBroadcast()                      {}
func (b unique) Invalidates(memberlist.Broadcast) bool { return false }

type plain struct{ *bcast }

func (b plain) Invalidates(o memberlist.Broadcast) bool {
	p, ok := o.(plain)
	return ok && b.inv >= 0 && p.tag == b.inv
}

// ---- reference model ----------------------------------------------------------

type mItem struct {
	b         *bcast
	transmits int
}

type model struct {
	items []*mItem // insertion order
	gone  []*bcast // removed, each must have finished == 1
}

func limitFor(mult, n int) int {
	// RetransmitMult * ceil(log10(n+1)), written independently of the code
	// with integer arithmetic: digits of n.
	d := 0
	for v := n; v > 0; v /= 10 {
		d++
	}
	return mult * d
}

func (m *model) remove(it *mItem) {
	for i, x := range m.items {
		if x == it {
			m.items = append(m.items[:i:i], m.items[i+1:]...)
			m.gone = append(m.gone, it.b)
			return
		}
	}
}

func (m *model) queue(b *bcast) {
	var del []*mItem
	switch {
	case b.kind == "named" && b.name != "":
		for _, it := range m.items {
			if it.b.kind == "named" && it.b.name == b.name {
				del = append(del, it)
			}
		}
	case b.kind == "plain":
		for _, it := range m.items {
			if it.b.kind == "plain" && b.inv >= 0 && it.b.tag == b.inv {
				del = append(del, it)
			}
		}
	}
	for _, it := range del {
		m.remove(it)
	}
	m.items = append(m.items, &mItem{b: b})
}

// selection: ascending transmit count, then the longest that still fits, then
// the newest. lenient decides whether a zero-length message may use a free
// budget of exactly zero (both readings of "fits" are accepted).
func (m *model) pick(overhead, limit int, lenient bool) []*mItem {
	var out []*mItem
	picked := map[*mItem]bool{}
	tiers := map[int]bool{}
	for _, it := range m.items {
		tiers[it.transmits] = true
	}
	var ts []int
	for t := range tiers {
		ts = append(ts, t)
	}
	sort.Ints(ts)
	used := 0
	for _, t := range ts {
		for {
			free := limit - used - overhead
			if free < 0 || (free == 0 && !lenient) {
				return out
			}
			var best *mItem
			for _, it := range m.items {
				if picked[it] || it.transmits != t || len(it.b.msg) > free {
					continue
				}
				if best == nil || len(it.b.msg) > len(best.b.msg) ||
					(len(it.b.msg) == len(best.b.msg) && it.b.seq > best.b.seq) {
					best = it
				}
			}
			if best == nil {
				break
			}
			picked[best] = true
			out = append(out, best)
			used += overhead + len(best.b.msg)
		}
	}
	return out
}

func (m *model) apply(picks []*mItem, limit int) (reinserted int) {
	for _, it := range picks {
		if it.transmits+1 >= limit {
			m.remove(it)
		} else {
			it.transmits++
			reinserted++
		}
	}
	return
}

// prune keeps the k least-transmitted / largest / newest.
func (m *model) prune(k int) {
	if k < 0 {
		k = 0
	}
	for len(m.items) > k {
		var worst *mItem
		for _, it := range m.items {
			if worst == nil || it.transmits > worst.transmits ||
				(it.transmits == worst.transmits && (len(it.b.msg) < len(worst.b.msg) ||
					(len(it.b.msg) == len(worst.b.msg) && it.b.seq < worst.b.seq))) {
				worst = it
			}
		}
		m.remove(worst)
	}
}

func (m *model) reset() {
	for len(m.items) > 0 {
		m.remove(m.items[0])
	}
}

// ---- execution ----------------------------------------------------------------

func ptr(b []byte) unsafe.Pointer { return unsafe.Pointer(unsafe.SliceData(b)) }

func desc(items []*mItem) string {
	var s []string
	for _, it := range items {
		s = append(s, fmt.Sprintf("#%d(%s,len=%d,tx=%d)", it.b.seq, it.b.kind+":"+it.b.name, len(it.b.msg), it.transmits))
	}
	return "[" + strings.Join(s, " ") + "]"
}

func runPlan(p Plan) (res vfx.Result) {
	n := p.N
	q := &memberlist.TransmitLimitedQueue{RetransmitMult: p.Mult, NumNodes: func() int { return n }}
	m := &model{}
	var allB []*bcast
	byPtr := map[unsafe.Pointer]*mItem{}
	seq := 0
	var hist []string
	labels := map[string]bool{}
	reinsertedEarlier := false
	nontrivial := false

	// A completion callback may take its time, and other goroutines may use the queue meanwhile. The first hooked
	// broadcast that completes starts a goroutine that calls into the queue and gives it 2 ms; a queue that is
	// consistent at every point where it lets another caller in behaves as if that call came after the operation
	// that ran the callback, which is where the model applies it.
	type pending struct {
		kind string
		k    int
		b    *bcast
		mb   memberlist.Broadcast
		done chan error
	}
	var pend *pending
	armed := true
	hook := func(kind string, k int, name string) func() {
		return func() {
			if !armed {
				return
			}
			armed = false
			pd := &pending{kind: kind, k: k, done: make(chan error, 1)}
			if kind == "requeue" {
				seq++
				pd.b = &bcast{seq: seq, kind: "named", name: name}
				pd.b.msg = make([]byte, 7, 16)
				pd.mb = named{pd.b}
			}
			pend = pd
			slipped := make(chan struct{})
			go func() {
				pd.done <- vfx.Guard(func() error {
					switch kind {
					case "requeue":
						q.QueueBroadcast(pd.mb)
					case "reset":
						q.Reset()
					case "prune":
						q.Prune(k)
					}
					return nil
				})
				close(slipped)
			}()
			select {
			case <-slipped:
				labels["hook-ran-inside-callback"] = true
			case <-time.After(2 * time.Millisecond):
			}
		}
	}
	settle := func(step string) error {
		if pend == nil {
			return nil
		}
		pd := pend
		pend = nil
		select {
		case err := <-pd.done:
			if err != nil {
				return fmt.Errorf("%s: the %s issued from another goroutine during a completion callback failed: %v", step, pd.kind, err)
			}
		case <-time.After(20 * time.Second):
			return fmt.Errorf("%s: the %s issued from another goroutine during a completion callback has not returned 20 s after the operation that ran the callback", step, pd.kind)
		}
		labels["hook:"+pd.kind] = true
		nontrivial = true
		switch pd.kind {
		case "requeue":
			m.queue(pd.b)
			allB = append(allB, pd.b)
			byPtr[ptr(pd.b.msg)] = m.items[len(m.items)-1]
		case "reset":
			m.reset()
		case "prune":
			m.prune(pd.k)
		}
		return nil
	}

	check := func(step string) error {
		if err := settle(step); err != nil {
			return err
		}
		if got := q.NumQueued(); got != len(m.items) {
			return fmt.Errorf("%s: NumQueued()=%d, model holds %d %s", step, got, len(m.items), desc(m.items))
		}
		live := map[*bcast]bool{}
		for _, it := range m.items {
			live[it.b] = true
		}
		for _, b := range allB {
			want := 1
			if live[b] {
				want = 0
			}
			if b.finished != want {
				return fmt.Errorf("%s: broadcast #%d (%s:%q len=%d) Finished() ran %d times, want %d (still queued in model: %v)", step, b.seq, b.kind, b.name, len(b.msg), b.finished, want, live[b])
			}
		}
		seen := map[string]bool{}
		for _, it := range m.items {
			if it.b.kind == "named" && it.b.name != "" {
				if seen[it.b.name] {
					return fmt.Errorf("%s: two broadcasts named %q queued", step, it.b.name)
				}
				seen[it.b.name] = true
			}
		}
		return nil
	}

	doGet := func(step string, overhead, limit int) error {
		lim := limitFor(p.Mult, n)
		got := q.GetBroadcasts(overhead, limit)
		sum := 0
		var gotItems []*mItem
		dup := map[*mItem]bool{}
		for _, g := range got {
			sum += len(g) + overhead
			it, ok := byPtr[ptr(g)]
			if !ok {
				return fmt.Errorf("%s: GetBroadcasts returned a message (len %d) that is not a queued broadcast's Message()", step, len(g))
			}
			if dup[it] {
				return fmt.Errorf("%s: broadcast #%d returned twice in one retrieval", step, it.b.seq)
			}
			dup[it] = true
			gotItems = append(gotItems, it)
		}
		if sum > limit && len(got) > 0 {
			return fmt.Errorf("%s: GetBroadcasts(%d,%d) returned %d messages totalling %d bytes incl. overhead", step, overhead, limit, len(got), sum)
		}
		queued := map[*mItem]bool{}
		for _, it := range m.items {
			queued[it] = true
		}
		for _, it := range gotItems {
			if !queued[it] {
				return fmt.Errorf("%s: returned broadcast #%d which the model no longer holds (finished/superseded earlier)", step, it.b.seq)
			}
		}
		same := func(a []*mItem) bool {
			if len(a) != len(gotItems) {
				return false
			}
			for _, it := range a {
				if !dup[it] {
					return false
				}
			}
			return true
		}
		want := m.pick(overhead, limit, false)
		if !same(want) {
			alt := m.pick(overhead, limit, true)
			if !same(alt) {
				return fmt.Errorf("%s: GetBroadcasts(overhead=%d,limit=%d) returned %s; model (fewest transmits, then longest fitting, then newest) selects %s out of %s",
					step, overhead, limit, desc(gotItems), desc(want), desc(m.items))
			}
			want = alt
			labels["zero-len-at-exact-fit"] = true
		}
		before := len(m.items)
		if re := m.apply(want, lim); re > 0 {
			reinsertedEarlier = true
			labels["reinserted"] = true
		}
		if before > 0 && len(m.items) == 0 {
			labels["emptied-by-get"] = true
		}
		if before > 0 && len(want) == before {
			labels["all-held-out-mid-get"] = true
		}
		return nil
	}

	err := vfx.Guard(func() error {
		for i, op := range p.Ops {
			step := fmt.Sprintf("op %d %+v", i, op)
			switch op.Kind {
			case "queue":
				seq++
				b := &bcast{seq: seq, kind: op.BKind, name: op.Name, tag: op.Tag, inv: op.InvTag}
				b.msg = make([]byte, op.Len, op.Len+8)
				for j := range b.msg {
					b.msg[j] = byte(seq)
				}
				if op.Hook != "" {
					hn := op.Name
					if op.BKind != "named" || hn == "" {
						hn = "a"
					}
					b.onFinish = hook(op.Hook, op.K, hn)
				}
				var mb memberlist.Broadcast
				switch op.BKind {
				case "named":
					mb = named{b}
				case "unique":
					mb = unique{b}
				default:
					mb = plain{b}
				}
				for _, it := range m.items {
					if len(it.b.msg) == op.Len {
						nontrivial = true
						labels["equal-length-coexist"] = true
					}
				}
				if reinsertedEarlier {
					nontrivial = true
					labels["enqueue-after-reinsert"] = true
				}
				if len(allB) == 0 {
					labels["first-op-queue"] = true
				}
				q.QueueBroadcast(mb)
				m.queue(b)
				allB = append(allB, b)
				byPtr[ptr(b.msg)] = m.items[len(m.items)-1]
			case "bulk":
				nontrivial = true
				labels["bulk"] = true
				for k := 0; k < op.N; k++ {
					seq++
					b := &bcast{seq: seq, kind: "unique"}
					b.msg = make([]byte, op.Len+k%3, op.Len+k%3+8)
					q.QueueBroadcast(unique{b})
					m.queue(b)
					allB = append(allB, b)
					byPtr[ptr(b.msg)] = m.items[len(m.items)-1]
				}
				if len(m.items) >= 64 {
					labels["backlog>=64"] = true
				}
			case "get":
				if err := doGet(step, op.Overhead, op.Limit); err != nil {
					return err
				}
			case "prune":
				nontrivial = true
				labels["prune"] = true
				if len(allB) == 0 && i == 0 {
					labels["prune-untouched"] = true
				}
				q.Prune(op.K)
				m.prune(op.K)
			case "reset":
				nontrivial = true
				labels["reset"] = true
				q.Reset()
				m.reset()
			case "setn":
				n = op.N
			case "num":
			}
			if err := check(step); err != nil {
				return err
			}
			hist = append(hist, fmt.Sprintf("%s -> queued %s", step, desc(m.items)))
		}
		// Final drain with a constant cluster size: every survivor is handed
		// out until its limit, then Finished exactly once.
		armed = false // the drain counts hand-outs; nothing else touches the queue from here on
		lim := limitFor(p.Mult, n)
		handed := map[*bcast]int{}
		start := map[*bcast]int{}
		for _, it := range m.items {
			start[it.b] = it.transmits
		}
		for round := 0; len(m.items) > 0; round++ {
			if round > 64 {
				return fmt.Errorf("drain: queue not empty after %d full retrievals: %s", round, desc(m.items))
			}
			for _, it := range m.pick(0, math.MaxInt32, false) {
				handed[it.b]++
			}
			if err := doGet(fmt.Sprintf("drain round %d", round), 0, math.MaxInt32); err != nil {
				return err
			}
			if err := check(fmt.Sprintf("drain round %d", round)); err != nil {
				return err
			}
		}
		for b, h := range handed {
			want := lim - start[b]
			if want < 1 {
				want = 1
			}
			if h != want {
				return fmt.Errorf("drain: broadcast #%d handed out %d more times, want %d (limit %d, already %d)", b.seq, h, want, lim, start[b])
			}
		}
		if got := q.GetBroadcasts(0, 1000); len(got) != 0 {
			return fmt.Errorf("drain: empty queue still returns %d messages", len(got))
		}
		return check("end")
	})
	for l := range labels {
		res.Labels = append(res.Labels, l)
	}
	sort.Strings(res.Labels)
	res.NonTrivial = nontrivial
	res.Err = err
	res.History = hist
	return
}

func TestQueueModel(t *testing.T) { vfx.Check(t, genPlan, runPlan) }
