package c12

import (
	"bytes"
	"fmt"
	"os"
	"strings"
	"sync"
	"testing"
	"time"

	"pgregory.net/rapid"

	"verif/harness/puppet"
	"verif/harness/realnet"
	"verif/harness/vfx"
)

// Round trip over real loopback sockets with truly concurrent senders. The virtual-time check hands every packet to a
// transport that copies it at once and runs one sender at a time per instant; here memberlist's own NetTransport is
// used (UDP read loop, buffer slicing, TCP accept) and 1-8 goroutines per node send at the same time, in both
// directions, so that state shared between sends (header buffers, pooled readers, scratch space) is exposed.
// Every payload is unique (it carries a serial number). Oracle at the receiving delegate:
//   - everything delivered is byte-identical to something that was sent to this node (nothing invented or mangled),
//   - nothing is delivered more often than it was sent,
//   - every reliable message whose send returned nil is delivered exactly once,
//   - every best-effort message is delivered after at most 3 sequential resends (loopback may drop under buffer
//     pressure; a message that never arrives in 4 attempts is a loss by the pipeline).

type SockSend struct {
	Reliable bool
	Len      int
	Pattern  int
	FromB    bool
}

type SockPlan struct {
	Seed       uint64
	Mode       int
	LabelLen   int
	KeyLen     int
	NoCompress bool
	PV         uint8
	Workers    int
	Sends      []SockSend
}

func genSockPlan(t *rapid.T) SockPlan {
	p := SockPlan{Seed: rapid.Uint64Range(1, 1<<40).Draw(t, "seed"), Mode: rapid.IntRange(0, 2).Draw(t, "mode"),
		LabelLen: rapid.SampledFrom([]int{0, 0, 1, 3, 15, 31, 64, 200, 254, 255}).Draw(t, "label"),
		KeyLen:   rapid.SampledFrom([]int{0, 0, 16, 32}).Draw(t, "key"), NoCompress: rapid.Bool().Draw(t, "nocomp"),
		PV: uint8(rapid.IntRange(2, 5).Draw(t, "pv")), Workers: rapid.IntRange(1, 8).Draw(t, "workers")}
	if os.Getenv("VF_SOCK_LABEL") != "" && p.LabelLen == 0 { // the run registered under C16: every case carries a label
		p.LabelLen = rapid.SampledFrom([]int{1, 3, 15, 31, 64, 127, 200, 254, 255}).Draw(t, "label2")
	}
	big := 0
	p.Sends = rapid.SliceOfN(rapid.Custom(func(t *rapid.T) SockSend {
		s := SockSend{Reliable: rapid.IntRange(0, 3).Draw(t, "rel") == 0, Pattern: rapid.IntRange(0, 2).Draw(t, "pattern"), FromB: rapid.Bool().Draw(t, "fromb")}
		if s.Reliable {
			s.Len = rapid.SampledFrom([]int{2, 3, 15, 16, 17, 31, 32, 33, 1000, 4095, 4096, 4097, 65536, 300000}).Draw(t, "len")
		} else {
			s.Len = rapid.OneOf(rapid.IntRange(2, 12), rapid.IntRange(2, 40), rapid.SampledFrom([]int{100, 1300, 1400, 8000, 60000})).Draw(t, "len")
			if s.Len > 2000 {
				big++
				if big > 2 { // keep a burst well below the socket's receive buffer
					s.Len = 24
				}
			}
		}
		return s
	}), 2, 40).Draw(t, "sends")
	// a third of the cases: nothing but tiny unencrypted datagrams from many goroutines (the smallest packets are the
	// ones that fit into whatever spare room a shared buffer has)
	if rapid.IntRange(0, 2).Draw(t, "tiny") == 0 {
		p.KeyLen = 0
		p.Workers = rapid.IntRange(4, 8).Draw(t, "tinyworkers")
		for i := range p.Sends {
			p.Sends[i].Reliable = false
			p.Sends[i].Len = 2 + i%7
		}
	}
	return p
}

func sockPayload(seed uint64, idx int, s SockSend) []byte {
	// unique inside the case: two bytes of serial number, then the pattern
	b := payload(seed, idx, Send{Len: s.Len, Pattern: s.Pattern})
	if len(b) < 2 {
		b = make([]byte, 2)
	}
	b[0], b[1] = byte(idx>>8)|0x40, byte(idx)
	if len(b) >= 4 { // payload() marks the tail with the low byte of idx; keep the serial authoritative
		b[len(b)-1] = byte(idx)
	}
	return b
}

var sockMu sync.Mutex

func runSock(pl SockPlan) (res vfx.Result) {
	sockMu.Lock()
	defer sockMu.Unlock()
	label := strings.Repeat("L", pl.LabelLen)
	mk := func(name string) puppet.NodeConf {
		c := puppet.NodeConf{Name: name, IndirectChecks: 0, ProbeIntervalMs: 1000, ProbeTimeoutMs: 500, GossipIntervalMs: 100,
			Label: label, SuspicionMult: 8, ProtocolVersion: pl.PV, NoCompress: pl.NoCompress, UDPBufferSize: 1400}
		if pl.KeyLen > 0 {
			c.Keys = [][]byte{[]byte("0123456789abcdef0123456789abcdef")[:pl.KeyLen]}
		}
		return c
	}
	a, err := realnet.Start(mk("a"), pl.Mode, 0, false)
	if err != nil {
		res.Err = fmt.Errorf("cannot create a: %v", err)
		return
	}
	defer a.M.Shutdown()
	b, err := realnet.Start(mk("b"), realnet.ModeDefault, 0, pl.KeyLen > 0)
	if err != nil {
		res.Err = fmt.Errorf("cannot create b: %v", err)
		return
	}
	defer b.M.Shutdown()
	joined := false
	for i := 0; i < 4 && !joined; i++ {
		_, err := b.M.Join([]string{a.Addr()})
		joined = err == nil
	}
	if !joined {
		res.Labels = append(res.Labels, "sock-join-failed")
		return
	}
	type item struct {
		s    SockSend
		pay  []byte
		sent int // sends that returned nil
		unk  int // sends that returned an error (may or may not have gone out)
	}
	items := make([]*item, len(pl.Sends))
	for i, s := range pl.Sends {
		items[i] = &item{s: s, pay: sockPayload(pl.Seed, i, s)}
	}
	var imu sync.Mutex
	send := func(it *item) {
		from, to := a, b
		if it.s.FromB {
			from, to = b, a
		}
		var err error
		if it.s.Reliable {
			err = from.M.SendReliable(to.M.LocalNode(), it.pay)
		} else {
			err = from.M.SendBestEffort(to.M.LocalNode(), it.pay)
		}
		imu.Lock()
		if err == nil {
			it.sent++
		} else {
			it.unk++
		}
		imu.Unlock()
	}
	var wg sync.WaitGroup
	start := make(chan struct{})
	for w := 0; w < pl.Workers; w++ {
		w := w
		wg.Add(1)
		go func() {
			defer wg.Done()
			<-start
			for i := w; i < len(items); i += pl.Workers {
				send(items[i])
			}
		}()
	}
	close(start)
	wg.Wait()

	counts := func() (map[string]int, map[string]int) {
		ca, cb := map[string]int{}, map[string]int{}
		for _, e := range a.Rec.Events() {
			if e.Kind == "msg" {
				ca[string(e.Data)]++
			}
		}
		for _, e := range b.Rec.Events() {
			if e.Kind == "msg" {
				cb[string(e.Data)]++
			}
		}
		return ca, cb
	}
	got := func(it *item) int {
		ca, cb := counts()
		if it.s.FromB {
			return ca[string(it.pay)]
		}
		return cb[string(it.pay)]
	}
	waitAll := func(d time.Duration) []*item {
		deadline := time.Now().Add(d)
		for {
			ca, cb := counts()
			var missing []*item
			for _, it := range items {
				c := cb
				if it.s.FromB {
					c = ca
				}
				if c[string(it.pay)] == 0 && it.sent > 0 {
					missing = append(missing, it)
				}
			}
			if len(missing) == 0 || time.Now().After(deadline) {
				return missing
			}
			time.Sleep(5 * time.Millisecond)
		}
	}
	missing := waitAll(3 * time.Second)
	resent := 0
	for round := 0; round < 3 && len(missing) > 0; round++ {
		for _, it := range missing {
			if it.s.Reliable {
				continue
			}
			send(it)
			resent++
			deadline := time.Now().Add(2 * time.Second)
			for got(it) == 0 && time.Now().Before(deadline) {
				time.Sleep(5 * time.Millisecond)
			}
		}
		missing = waitAll(500 * time.Millisecond)
	}
	time.Sleep(50 * time.Millisecond) // late duplicates
	ca, cb := counts()
	// nothing invented, nothing duplicated
	sentTo := map[bool]map[string]*item{false: {}, true: {}}
	for _, it := range items {
		sentTo[it.s.FromB][string(it.pay)] = it
	}
	for toA, c := range map[bool]map[string]int{true: ca, false: cb} {
		who := "b"
		if toA {
			who = "a"
		}
		for pay, n := range c {
			it := sentTo[toA][pay]
			if it == nil {
				res.Err = fmt.Errorf("node %s was handed a %d-byte user message that nobody sent to it: %q...", who, len(pay), firstN(pay, 40))
				return
			}
			if n > it.sent+it.unk {
				res.Err = fmt.Errorf("node %s was handed message %q... (%d bytes) %d times, it was sent %d time(s)", who, firstN(pay, 24), len(pay), n, it.sent+it.unk)
				return
			}
		}
	}
	for _, it := range items {
		c := cb
		if it.s.FromB {
			c = ca
		}
		n := c[string(it.pay)]
		if it.s.Reliable && it.unk == 0 && n != 1 {
			res.Err = fmt.Errorf("reliable message %q... (%d bytes) whose send returned nil was delivered %d times", firstN(string(it.pay), 24), len(it.pay), n)
			return
		}
		if !it.s.Reliable && it.sent > 0 && n == 0 {
			res.Err = fmt.Errorf("best-effort message %q... (%d bytes) never arrived although it was sent %d times (sends that returned nil)", firstN(string(it.pay), 24), len(it.pay), it.sent)
			return
		}
	}
	res.NonTrivial = pl.Workers >= 2
	res.Labels = append(res.Labels, fmt.Sprintf("sock-workers-%d", min(pl.Workers, 4)), fmt.Sprintf("sock-mode-%d", pl.Mode))
	if pl.LabelLen > 0 {
		res.Labels = append(res.Labels, "sock-label")
	}
	if resent > 0 {
		res.Labels = append(res.Labels, "sock-resent")
	}
	_ = bytes.Equal
	return
}

func firstN(s string, n int) string {
	if len(s) > n {
		return s[:n]
	}
	return s
}

func TestRoundTripSockets(t *testing.T) {
	vfx.Check(t, genSockPlan, runSock)
}
