// C12 — the wire pipeline round-trips every message under every configuration.
// Two real nodes on a loss-free simulated network: everything node A is given
// through the API must reach node B's delegates byte for byte, exactly once;
// and the independent wire mirror must decode everything either node emits
// and recover the same payloads.
package c12

import (
	"bytes"
	"crypto/sha256"
	"encoding/binary"
	"fmt"
	"net"
	"sort"
	"strings"
	"testing"
	"testing/synctest"
	"time"

	"github.com/hashicorp/memberlist"
	"pgregory.net/rapid"

	"verif/harness/cluster"
	"verif/harness/puppet"
	"verif/harness/vfx"
	"verif/harness/wire"
)

func TestMain(m *testing.M) { vfx.Main(m) }

type Send struct {
	Kind    string // besteffort | reliable | gossip | meta
	Len     int
	Pattern int    // 0 incompressible, 1 zeros, 2 repeating text, 3 magic first byte
	First   int    `json:",omitempty"`
	Raw     []byte `json:",omitempty"` // explicit payload (native fuzzing)
}

type Plan struct {
	Seed       uint64
	PVa, PVb   uint8
	KeyLen     int // 0, 16, 24, 32
	NoCompress bool
	Label      int
	NewTimeA   bool
	NewTimeB   bool
	NameLen    int
	NameBin    bool
	StateA     int // push/pull user state lengths (-1 = nil)
	StateB     int
	AckLen     int
	UDPBuf     int
	Sends      []Send
}

var labelsFam = []string{"", "lbl", strings.Repeat("L", 255)}

func genPlan(t *rapid.T) Plan {
	p := Plan{Seed: rapid.Uint64Range(1, 1<<40).Draw(t, "seed")}
	p.KeyLen = rapid.SampledFrom([]int{0, 0, 16, 24, 32}).Draw(t, "key")
	lo := 2
	if p.KeyLen > 0 {
		lo = 1
	}
	p.PVa = uint8(rapid.IntRange(lo, 5).Draw(t, "pva"))
	p.PVb = uint8(rapid.IntRange(lo, 5).Draw(t, "pvb"))
	p.NoCompress = rapid.Bool().Draw(t, "nocomp")
	p.Label = rapid.IntRange(0, 2).Draw(t, "label")
	p.NewTimeA = rapid.Bool().Draw(t, "nta")
	p.NewTimeB = rapid.Bool().Draw(t, "ntb")
	p.NameLen = rapid.SampledFrom([]int{1, 5, 64, 128}).Draw(t, "namelen")
	p.NameBin = rapid.IntRange(0, 3).Draw(t, "namebin") == 0
	lens := []int{-1, 0, 1, 15, 16, 17, 100, 4095, 4096, 4097, 65536}
	if vfx.Thorough() {
		lens = append(lens, 300000, 1<<20+3)
	}
	p.StateA = rapid.SampledFrom(lens).Draw(t, "statea")
	p.StateB = rapid.SampledFrom(lens).Draw(t, "stateb")
	p.AckLen = rapid.SampledFrom([]int{0, 0, 1, 100, 1000}).Draw(t, "acklen")
	p.UDPBuf = rapid.SampledFrom([]int{512, 1400, 1400, 9000, 65000}).Draw(t, "udpbuf")
	p.Sends = rapid.SliceOfN(rapid.Custom(func(t *rapid.T) Send {
		s := Send{Kind: rapid.SampledFrom([]string{"besteffort", "besteffort", "reliable", "reliable", "gossip", "gossip", "meta", "sendto", "sendtoaddress", "sendtoudp", "sendtotcp"}).Draw(t, "kind"),
			Pattern: rapid.IntRange(0, 3).Draw(t, "pattern"), First: rapid.SampledFrom([]int{244, 0, 7, 9, 10, 12, 13}).Draw(t, "first")}
		switch s.Kind {
		case "besteffort", "sendto", "sendtoaddress", "sendtoudp":
			s.Len = rapid.OneOf(rapid.IntRange(0, 40), rapid.IntRange(0, 1350), rapid.SampledFrom([]int{0, 1, 15, 16, 17, 1300, 8000})).Draw(t, "len")
		case "reliable", "sendtotcp":
			s.Len = rapid.SampledFrom([]int{0, 1, 15, 16, 17, 31, 32, 33, 1000, 4095, 4096, 4097, 65535, 65536}).Draw(t, "len")
			if vfx.Thorough() && rapid.IntRange(0, 19).Draw(t, "big") == 0 {
				s.Len = rapid.SampledFrom([]int{1 << 20, 4<<20 + 1}).Draw(t, "biglen")
			}
		case "gossip":
			s.Len = rapid.OneOf(rapid.IntRange(0, 3), rapid.IntRange(0, 400)).Draw(t, "len")
		case "meta":
			s.Len = rapid.SampledFrom([]int{0, 1, 100, 511, 512}).Draw(t, "len")
		}
		return s
	}), 1, 10).Draw(t, "sends")
	return p
}

func payload(seed uint64, idx int, s Send) []byte {
	if s.Raw != nil {
		return append([]byte(nil), s.Raw...)
	}
	b := make([]byte, s.Len)
	switch s.Pattern {
	case 0, 3:
		var ctr [16]byte
		binary.LittleEndian.PutUint64(ctr[:], seed)
		for off := 0; off < len(b); off += 32 {
			binary.LittleEndian.PutUint64(ctr[8:], uint64(idx)<<32|uint64(off))
			h := sha256.Sum256(ctr[:])
			copy(b[off:], h[:])
		}
	case 2:
		for i := range b {
			b[i] = "the quick brown fox "[i%20]
		}
	}
	if s.Pattern == 3 && len(b) > 0 {
		b[0] = byte(s.First)
	}
	// make every payload of this case distinguishable when there is room
	if len(b) >= 4 {
		b[len(b)-1] = byte(idx)
		b[len(b)-2] = 0xA5
	}
	return b
}

var theT *testing.T

func runPlan(pl Plan) (res vfx.Result) {
	synctest.Test(theT, func(t *testing.T) { res = run(pl) })
	return
}

func multiset(bs [][]byte) map[string]int {
	m := map[string]int{}
	for _, b := range bs {
		m[string(b)]++
	}
	return m
}

func describe(m map[string]int) string {
	var s []string
	for k, v := range m {
		s = append(s, fmt.Sprintf("%dx[%d bytes %x..]", v, len(k), []byte(k)[:min(len(k), 6)]))
	}
	sort.Strings(s)
	return strings.Join(s, " ")
}

func run(pl Plan) (res vfx.Result) {
	labels := map[string]bool{}
	done := func() vfx.Result {
		for l := range labels {
			res.Labels = append(res.Labels, l)
		}
		sort.Strings(res.Labels)
		return res
	}
	fail := func(f string, a ...any) vfx.Result { res.Err = fmt.Errorf(f, a...); return done() }
	c := cluster.New(pl.Seed)
	defer c.ShutdownAll()
	var keys [][]byte
	if pl.KeyLen > 0 {
		k := make([]byte, pl.KeyLen)
		for i := range k {
			k[i] = byte(i*3 + 1)
		}
		keys = [][]byte{k}
	}
	name := func(tag byte) string {
		b := make([]byte, pl.NameLen)
		for i := range b {
			b[i] = byte('a' + i%26)
			if pl.NameBin {
				b[i] = byte(0x80 + i%100)
			}
		}
		b[0] = tag
		return string(b)
	}
	mk := func(i int, pv uint8, nt bool) puppet.NodeConf {
		return puppet.NodeConf{Name: name(byte('A' + i)), IP: fmt.Sprintf("10.0.0.%d", i+1), Port: 7946, ProtocolVersion: pv, Keys: keys, NoCompress: pl.NoCompress,
			Label: labelsFam[pl.Label], NewTimeFormat: nt, IndirectChecks: 1, WithPing: true, UDPBufferSize: pl.UDPBuf, GossipIntervalMs: 100,
			ProbeIntervalMs: 500, ProbeTimeoutMs: 200, PushPullMs: 2000, Meta: []byte("meta0"), TCPTimeoutMs: 5000}
	}
	a, err := c.Start(mk(0, pl.PVa, pl.NewTimeA))
	if err != nil {
		return fail("start a: %v", err)
	}
	b, err := c.Start(mk(1, pl.PVb, pl.NewTimeB))
	if err != nil {
		return fail("start b: %v", err)
	}
	state := func(n, tag int) []byte {
		if n < 0 {
			return nil
		}
		return payload(pl.Seed, 1000+tag, Send{Len: n, Pattern: tag % 3})
	}
	stA, stB := state(pl.StateA, 1), state(pl.StateB, 2)
	a.Rec.SetLocalState(stA)
	b.Rec.SetLocalState(stB)
	ack := payload(pl.Seed, 2000, Send{Len: pl.AckLen})
	a.Rec.SetAckPayload(ack)
	if _, err := a.M.Join([]string{b.Addr()}); err != nil {
		return fail("join: %v", err)
	}
	c.Wait()
	var toB *memberlist.Node
	for _, m := range a.M.Members() {
		if m.Name == b.Name() {
			toB = m
		}
	}
	if toB == nil {
		return fail("a does not list b after join: %v", a.MemberNames())
	}
	var wantMsgs [][]byte
	var reliableEmpty int
	lastMeta := []byte("meta0")
	layers := 0
	if pl.KeyLen > 0 {
		layers++
	}
	if !pl.NoCompress {
		layers++
	}
	if pl.Label > 0 {
		layers++
	}
	for i, s := range pl.Sends {
		pay := payload(pl.Seed, i, s)
		switch s.Kind {
		case "besteffort":
			if err := a.M.SendBestEffort(toB, pay); err != nil {
				return fail("SendBestEffort(%d bytes): %v", len(pay), err)
			}
			wantMsgs = append(wantMsgs, pay)
		case "sendto", "sendtoaddress", "sendtoudp":
			// the older entry points of the same two paths
			var err error
			switch s.Kind {
			case "sendto":
				err = a.M.SendTo(&net.UDPAddr{IP: net.IP(toB.Addr), Port: int(toB.Port)}, pay)
			case "sendtoaddress":
				err = a.M.SendToAddress(memberlist.Address{Addr: toB.Address(), Name: toB.Name}, pay)
			default:
				err = a.M.SendToUDP(toB, pay)
			}
			if err != nil {
				return fail("%s(%d bytes): %v", s.Kind, len(pay), err)
			}
			wantMsgs = append(wantMsgs, pay)
		case "reliable", "sendtotcp":
			var err error
			if s.Kind == "sendtotcp" {
				err = a.M.SendToTCP(toB, pay)
			} else {
				err = a.M.SendReliable(toB, pay)
			}
			if err != nil {
				return fail("%s(%d bytes): %v", s.Kind, len(pay), err)
			}
			if len(pay) == 0 {
				reliableEmpty++ // an empty reliable message may or may not be surfaced
			} else {
				wantMsgs = append(wantMsgs, pay)
			}
		case "gossip":
			groom := pl.UDPBuf - 2 - 45 - 3 - 8
			if l := labelsFam[pl.Label]; l != "" {
				groom -= 2 + len(l)
			}
			if len(pay) > groom {
				pay = pay[:max(0, groom)] // a broadcast larger than the packet budget is never handed out by a contract-abiding delegate
			}
			a.Rec.QueueUser(pay)
			wantMsgs = append(wantMsgs, pay)
		case "meta":
			// the alive message must fit one packet to be gossiped at all (a configuration
			// whose metadata exceeds the packet budget can only spread it by push/pull)
			room := pl.UDPBuf - 2 - 45 - 90 - pl.NameLen
			if l := labelsFam[pl.Label]; l != "" {
				room -= 2 + len(l)
			}
			if len(pay) > room {
				pay = pay[:max(0, room)]
			}
			lastMeta = pay
			a.Rec.SetMeta(pay)
			if err := a.M.UpdateNode(5 * time.Second); err != nil {
				return fail("UpdateNode(meta %d bytes): %v", len(pay), err)
			}
		}
		labels[fmt.Sprintf("%s|%s", s.Kind, sizeClass(s.Len))] = true
		if s.Len >= 1 && layers >= 2 {
			res.NonTrivial = true
		}
		time.Sleep(30 * time.Millisecond)
	}
	// let gossip drain, a few probes and one anti-entropy push/pull happen
	time.Sleep(6 * time.Second)
	c.Wait()
	if n := a.Rec.PendingUser(); n != 0 {
		return fail("%d user broadcasts were never handed out", n)
	}
	// ---- leg 1: receiver's delegate ----
	var gotMsgs [][]byte
	var gotStatesAtB, gotStatesAtA [][]byte
	var pingPayloads [][]byte
	for _, e := range b.Rec.Events() {
		switch e.Kind {
		case "msg":
			gotMsgs = append(gotMsgs, e.Data)
		case "merge-remote":
			gotStatesAtB = append(gotStatesAtB, e.Data)
		case "ping-complete":
			pingPayloads = append(pingPayloads, e.Data)
		}
	}
	for _, e := range a.Rec.Events() {
		if e.Kind == "merge-remote" {
			gotStatesAtA = append(gotStatesAtA, e.Data)
		}
	}
	want, got := multiset(wantMsgs), multiset(gotMsgs)
	if got[""] > want[""] && got[""] <= want[""]+reliableEmpty {
		got[""] = want[""]
	}
	for k, w := range want {
		if got[k] != w {
			return fail("user message of %d bytes (%x..) sent %d time(s), delivered %d time(s); sent %s; delivered %s; config %+v", len(k), []byte(k)[:min(len(k), 8)], w, got[k], describe(want), describe(got), pl)
		}
	}
	for k, g := range got {
		if want[k] == 0 && g > 0 {
			return fail("receiver's delegate got a %d-byte message (%x..) that was never sent; sent %s", len(k), []byte(k)[:min(len(k), 8)], describe(want))
		}
	}
	for _, s := range gotStatesAtB {
		if !bytes.Equal(s, stA) {
			return fail("b merged a %d-byte user state that differs from a's %d-byte state", len(s), len(stA))
		}
	}
	for _, s := range gotStatesAtA {
		if !bytes.Equal(s, stB) {
			return fail("a merged a %d-byte user state that differs from b's %d-byte state", len(s), len(stB))
		}
	}
	if len(stA) > 0 && len(gotStatesAtB) == 0 {
		return fail("b never received a's %d-byte user state (join + %d s of anti-entropy)", len(stA), 6)
	}
	if len(stB) > 0 && len(gotStatesAtA) == 0 {
		return fail("a never received b's %d-byte user state", len(stB))
	}
	for _, pp := range pingPayloads {
		if !bytes.Equal(pp, ack) {
			return fail("ack payload %x.. (%d bytes) differs from what a's ping delegate returned (%d bytes)", pp[:min(len(pp), 8)], len(pp), len(ack))
		}
	}
	if len(pingPayloads) == 0 {
		return fail("b never completed a probe of a in 6 s")
	}
	for _, m := range b.M.Members() {
		if m.Name == a.Name() {
			if !bytes.Equal(m.Meta, lastMeta) {
				return fail("b shows a's metadata as %d bytes %x.., a set %d bytes", len(m.Meta), m.Meta[:min(len(m.Meta), 8)], len(lastMeta))
			}
			if m.PCur != pl.PVa || m.PMin != 1 || m.PMax != 5 {
				return fail("b shows a's versions %d/%d/%d", m.PMin, m.PMax, m.PCur)
			}
		}
	}
	if !contains(b.MemberNames(), a.Name()) || !contains(a.MemberNames(), b.Name()) {
		return fail("names did not round trip: a sees %q, b sees %q", a.MemberNames(), b.MemberNames())
	}
	// ---- leg 2: independent decoder over everything on the wire ----
	cd := wire.Codec{Label: labelsFam[pl.Label], Keys: keys}
	tap, _, err := c.DecodeTap(0, cd)
	if err != nil {
		return fail("independent decoder: %v", err)
	}
	var wireUser [][]byte
	crcSeen := false
	for _, m := range tap {
		if m.Leaf.Type == wire.UserMsg && m.Src == a.Addr() {
			wireUser = append(wireUser, m.Leaf.Body)
		}
		if m.Info.CRC {
			crcSeen = true
		}
		if a2, ok := m.Leaf.V.(*wire.Alive); ok && a2.Node == a.Name() && len(a2.Meta) > 512 {
			return fail("alive with %d bytes of metadata on the wire", len(a2.Meta))
		}
	}
	if crcSeen {
		labels["crc-on-wire"] = true
	}
	var wireReliable [][]byte
	for _, e := range c.Net.Events() {
		if e.Kind != "swrite" || len(e.Data) == 0 {
			continue
		}
		data := e.Data
		if rest, _, err := wire.LabelSplit(data); err == nil && len(rest) == 0 && data[0] == wire.HasLabelMsg {
			continue // the label header is its own write
		}
		sm, err := cd.DecodeStream(data)
		if err != nil {
			return fail("independent decoder cannot parse a %d-byte stream message %s>%s: %v", len(data), e.Src, e.Dst, err)
		}
		switch sm.Type {
		case wire.UserMsg:
			if e.Src == a.Addr() {
				wireReliable = append(wireReliable, sm.UserState)
			}
		case wire.PushPullMsg:
			wantState := stA
			if e.Src == b.Addr() {
				wantState = stB
			}
			if !bytes.Equal(sm.UserState, wantState) && !(len(sm.UserState) == 0 && len(wantState) == 0) {
				return fail("push/pull from %s carries a %d-byte user state on the wire, the delegate supplied %d bytes", e.Src, len(sm.UserState), len(wantState))
			}
		}
	}
	wm := multiset(append(wireUser, wireReliable...))
	for k, w := range want {
		if wm[k] != w && !(k == "" && wm[k] >= w) {
			return fail("independent decoding of the wire finds the %d-byte user message %d time(s), it was sent %d time(s)", len(k), wm[k], w)
		}
	}
	labels[fmt.Sprintf("layers=%d", layers)] = true
	labels[fmt.Sprintf("enc=%d", pl.KeyLen)] = true
	labels[fmt.Sprintf("pv=%d>%d", pl.PVa, pl.PVb)] = true
	res.Sub = map[string]int64{"packets": int64(len(tap)), "user_messages": int64(len(wantMsgs))}
	return done()
}

func sizeClass(n int) string {
	switch {
	case n == 0:
		return "empty"
	case n < 16:
		return "sub-block"
	case n%16 <= 1 || n%16 == 15 || n%4096 <= 1 || n%4096 == 4095:
		return "block-boundary"
	case n > 4096:
		return "multi-buffer"
	}
	return "mid"
}

func contains(s []string, x string) bool {
	for _, y := range s {
		if y == x {
			return true
		}
	}
	return false
}

func TestRoundTrip(t *testing.T) {
	theT = t
	vfx.Check(t, genPlan, runPlan)
}

// FuzzRoundTrip: native coverage-guided fuzzing of the same round trip with
// (payload, configuration bits) as the input (thorough tier).
func FuzzRoundTrip(f *testing.F) {
	f.Add([]byte("hello"), uint16(0))
	f.Add([]byte{244, 3, 'a', 'b', 'c'}, uint16(0x1ff))
	f.Add(make([]byte, 16), uint16(0x0a5))
	f.Add([]byte{}, uint16(3))
	f.Fuzz(func(t *testing.T, data []byte, cfg uint16) {
		theT = t
		if len(data) > 60000 {
			return
		}
		keyLens := []int{0, 16, 24, 32}
		pl := Plan{Seed: 1, KeyLen: keyLens[cfg&3], NoCompress: cfg&4 != 0, Label: int(cfg>>3) % 3, NewTimeA: cfg&32 != 0, NewTimeB: cfg&64 != 0,
			NameLen: 5, StateA: -1, StateB: -1, UDPBuf: 65000}
		pl.PVa, pl.PVb = uint8(2+(cfg>>7)%4), uint8(2+(cfg>>9)%4)
		if pl.KeyLen > 0 && cfg&(1<<11) != 0 {
			pl.PVa = 1
		}
		d := append([]byte{}, data...)
		pl.Sends = []Send{{Kind: "besteffort", Len: len(d), Raw: d}, {Kind: "reliable", Len: len(d), Raw: d}, {Kind: "gossip", Len: len(d), Raw: d}}
		if r := runPlan(pl); r.Err != nil {
			t.Fatal(r.Err)
		}
	})
}
