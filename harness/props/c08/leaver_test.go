package c08

import (
	"fmt"
	"runtime"
	"sort"
	"sync"
	"testing"
	"testing/synctest"
	"time"

	"pgregory.net/rapid"

	"verif/harness/puppet"
	"verif/harness/vfx"
	"verif/harness/wire"
)

// Leaver role: the real node calls Leave while accusations about it arrive
// before, at the very same virtual instant as, and after the call.

type LStep struct {
	Kind    string // accuse | update | sleep | leave | suspect-peers (every peer becomes suspect in the node's view: still a member, still to be told)
	Acc     string `json:",omitempty"` // suspect | dead | alive
	IncD    int    `json:",omitempty"`
	SleepMs int    `json:",omitempty"`
	// leave
	TimeoutMs int    `json:",omitempty"`
	RaceN     int    `json:",omitempty"` // accusations released at the instant of the call
	RaceKind  string `json:",omitempty"`
	RaceOffUs []int  `json:",omitempty"` // arrival offsets relative to the call, microseconds
	HoldLock  bool   // park Leave and the racing accusations behind a held node lock, then release
	AccFirst  bool   `json:",omitempty"` // behind the held lock the accusations queue up before Leave is called (they are served first, while the call is already under way)
}

type LPlan struct {
	Seed  uint64
	Peers int
	Steps []LStep
}

func genLPlan(t *rapid.T) LPlan {
	p := LPlan{Seed: rapid.Uint64Range(1, 1<<40).Draw(t, "seed"), Peers: rapid.IntRange(0, 3).Draw(t, "peers")}
	pre := rapid.SliceOfN(rapid.Custom(func(t *rapid.T) LStep {
		switch rapid.IntRange(0, 4).Draw(t, "k") {
		case 0:
			return LStep{Kind: "update"}
		case 1:
			return LStep{Kind: "sleep", SleepMs: rapid.SampledFrom([]int{1, 150, 1000}).Draw(t, "ms")}
		case 4:
			return LStep{Kind: "suspect-peers"}
		}
		return LStep{Kind: "accuse", Acc: rapid.SampledFrom([]string{"suspect", "dead", "alive"}).Draw(t, "acc"), IncD: rapid.IntRange(-1, 2).Draw(t, "incd")}
	}), 0, 3).Draw(t, "pre")
	lv := LStep{Kind: "leave", TimeoutMs: rapid.SampledFrom([]int{300, 1500}).Draw(t, "timeout"), RaceN: rapid.SampledFrom([]int{0, 1, 2, 4}).Draw(t, "racen"),
		RaceKind: rapid.SampledFrom([]string{"suspect", "suspect", "dead", "alive"}).Draw(t, "racekind")}
	lv.HoldLock = rapid.IntRange(0, 2).Draw(t, "holdlock") == 0
	lv.AccFirst = rapid.Bool().Draw(t, "accfirst")
	for i := 0; i < lv.RaceN; i++ {
		lv.RaceOffUs = append(lv.RaceOffUs, rapid.SampledFrom([]int{0, 0, 0, -1, 1, 20}).Draw(t, "off"))
	}
	post := rapid.SliceOfN(rapid.Custom(func(t *rapid.T) LStep {
		switch rapid.IntRange(0, 4).Draw(t, "k") {
		case 0:
			return LStep{Kind: "leave", TimeoutMs: 1000}
		case 1:
			return LStep{Kind: "sleep", SleepMs: rapid.SampledFrom([]int{1, 300, 2500}).Draw(t, "ms")}
		}
		return LStep{Kind: "accuse", Acc: rapid.SampledFrom([]string{"suspect", "dead", "alive", "alive"}).Draw(t, "acc"), IncD: rapid.SampledFrom([]int{-1, 0, 1, 5, 1000}).Draw(t, "incd")}
	}), 1, 5).Draw(t, "post")
	p.Steps = append(append(pre, lv), post...)
	return p
}

func runLPlan(pl LPlan) (res vfx.Result) {
	synctest.Test(theT, func(t *testing.T) { res = runL(pl) })
	return
}

func runL(pl LPlan) (res vfx.Result) {
	labels := map[string]bool{}
	var hist []string
	var hmu sync.Mutex
	logf := func(f string, a ...any) { hmu.Lock(); hist = append(hist, fmt.Sprintf(f, a...)); hmu.Unlock() }
	done := func() vfx.Result {
		res.History = hist
		for l := range labels {
			res.Labels = append(res.Labels, l)
		}
		sort.Strings(res.Labels)
		return res
	}
	fail := func(f string, a ...any) vfx.Result { res.Err = fmt.Errorf(f, a...); return done() }
	conf := puppet.NodeConf{Name: "n0", IP: "10.0.0.1", Port: 7946, IndirectChecks: 2, GossipToDeadMs: 3600000, Meta: []byte("v0")}
	p, err := puppet.New(pl.Seed, conf)
	if err != nil {
		return fail("create: %v", err)
	}
	defer func() { p.Shutdown(); time.Sleep(20 * time.Second) }()
	vsn := []uint8{1, 5, 2, 0, 0, 0}
	var peers []*puppet.Peer
	for i := 0; i < pl.Peers; i++ {
		pe := p.AddPeer(fmt.Sprintf("h%d", i), fmt.Sprintf("10.0.0.%d", 20+i), 7946, vsn)
		peers = append(peers, pe)
		p.Inject(pe.Addr(), [][]byte{puppet.Claim{Kind: "alive", Node: pe.Name, Inc: 1, Addr: pe.IPBytes(), Port: 7946, Vsn: vsn}.Leaf()}, puppet.Carrier{})
	}
	src := "10.0.0.20:7946"
	peerAddr := map[string]bool{}
	for _, pe := range peers {
		peerAddr[pe.Addr()] = true
	}
	selfIP := []byte{10, 0, 0, 1}
	metaV := 0
	mkAcc := func(kind string, inc uint32) puppet.Claim {
		switch kind {
		case "suspect":
			return puppet.Claim{Kind: "suspect", Node: "n0", Inc: inc, From: "h0"}
		case "dead":
			return puppet.Claim{Kind: "dead", Node: "n0", Inc: inc, From: "h0"}
		}
		return puppet.Claim{Kind: "alive", Node: "n0", Inc: inc, Addr: selfIP, Port: 7946, Meta: []byte("forged"), Vsn: conf.Vsn()}
	}
	ownInc := func() (uint32, int, error) {
		d, err := p.Dump()
		if err != nil {
			return 0, 0, err
		}
		r, ok := d["n0"]
		if !ok {
			return 0, 0, fmt.Errorf("own record missing: %v", d)
		}
		return r.Inc, r.State, nil
	}
	leftOK := false // a Leave call has returned nil
	var leaveInc uint32
	var leaveRet time.Duration
	leaveEvIdx := 0
	announced := func(before time.Duration) (bool, error) {
		out, _, err := p.OutboundSince(0)
		if err != nil {
			return false, err
		}
		for _, o := range out {
			if d, ok := o.Leaf.V.(*wire.Dead); ok && d.Node == "n0" && d.From == "n0" && peerAddr[o.Dst] && o.T <= before {
				return true, nil
			}
		}
		return false, nil
	}
	for i, st := range pl.Steps {
		where := fmt.Sprintf("step %d %s", i, st.Kind)
		switch st.Kind {
		case "sleep":
			time.Sleep(time.Duration(st.SleepMs) * time.Millisecond)
			p.Settle()
		case "update":
			if leftOK {
				continue
			}
			metaV++
			p.Rec.SetMeta([]byte(fmt.Sprintf("v%d", metaV)))
			go func() { _ = p.M.UpdateNode(time.Second) }() // may still be queued when Leave is called
			time.Sleep(time.Millisecond)
		case "suspect-peers":
			if leftOK {
				continue
			}
			var parts [][]byte
			for _, pe := range peers {
				parts = append(parts, puppet.Claim{Kind: "suspect", Node: pe.Name, Inc: 1, From: "acc"}.Leaf())
			}
			if len(parts) > 0 {
				p.Inject(src, parts, puppet.Carrier{Kind: "compound"})
				labels["peers-suspected-before-leave"] = true
			}
		case "accuse":
			inc, _, err := ownInc()
			if err != nil {
				return fail("%s: %v", where, err)
			}
			v := int64(inc) + int64(st.IncD)
			if v < 0 {
				v = 0
			}
			c := mkAcc(st.Acc, uint32(v))
			p.Inject(src, [][]byte{c.Leaf()}, puppet.Carrier{})
			where += " " + c.String()
		case "leave":
			inc, _, err := ownInc()
			if err != nil {
				return fail("%s: %v", where, err)
			}
			// live peer in the node's view at the moment of the call?
			hadPeer := false
			for _, m := range p.M.Members() {
				if m.Name != "n0" {
					hadPeer = true
				}
			}
			if st.HoldLock && st.RaceN > 0 {
				// A membership event callback runs under the node lock: park one there (a push/pull row about a
				// new member, handled on a stream goroutine), queue Leave and the accusations behind the lock,
				// then let go. Virtual time cannot advance while goroutines wait on the mutex, so everything
				// here is delivered without timers and paced by yielding.
				hold := make(chan struct{})
				p.Rec.Hold("blocker", hold)
				go func() {
					_, _ = p.PushPullTo(p.Obs, false, []wire.PushNodeState{{Name: "blocker", Addr: []byte{10, 0, 9, 9}, Port: 7946, Incarnation: 1, State: 0, Vsn: vsn}}, nil, false)
				}()
				for spin := 0; spin < 200000 && p.Rec.Holding.Load() == 0; spin++ {
					runtime.Gosched()
				}
				parked := p.Rec.Holding.Load() != 0
				if !parked {
					// the schedule did not cooperate: fall back to the plain same-instant race below
					close(hold)
					p.Rec.Unhold()
					labels["park-failed"] = true
				}
				if parked {
					var lerr error
					leaveDone := make(chan struct{})
					callLeave := func() {
						go func() { lerr = p.M.Leave(time.Duration(st.TimeoutMs) * time.Millisecond); close(leaveDone) }()
						for spin := 0; spin < 3000; spin++ {
							runtime.Gosched()
						}
					}
					accuse := func() {
						for range st.RaceOffUs {
							p.Net.DeliverNow(src, p.Addr(), p.Outer(mkAcc(st.RaceKind, inc).Leaf()))
						}
						for spin := 0; spin < 3000; spin++ {
							runtime.Gosched()
						}
					}
					if st.AccFirst {
						// the accusations wait for the lock first; Leave is called while they wait and gets the lock after them
						accuse()
						callLeave()
						labels["accusation-queued-before-leave:"+st.RaceKind] = true
					} else {
						callLeave()
						accuse()
					}
					close(hold)
					p.Rec.Unhold()
					<-leaveDone
					retAt := p.Net.Now()
					labels["race-behind-held-lock:"+st.RaceKind] = true
					logf("%v Leave(%dms) behind a held node lock -> %v (own inc before %d, %d racing %s)", retAt, st.TimeoutMs, lerr, inc, st.RaceN, st.RaceKind)
					p.Settle()
					res.NonTrivial = true
					if lerr == nil {
						first := !leftOK
						leftOK = true
						li, state, err := ownInc()
						if err != nil {
							return fail("%s: %v", where, err)
						}
						if first {
							leaveInc, leaveRet, leaveEvIdx = li, retAt, p.Rec.Len()
						}
						if state != wire.StateLeft {
							return fail("%s: Leave returned nil but the node's own record is %s (history %v)", where, wire.StateName(state), hist)
						}
						if pl.Peers > 0 && hadPeer {
							ok, err := announced(retAt)
							if err != nil {
								return fail("%s: %v", where, err)
							}
							if !ok {
								return fail("%s: Leave returned nil at %v with live peers in view, but no dead{n0 from n0} had been sent to any of them (history %v)", where, retAt, hist)
							}
						}
					}
					break
				}
			}
			callAt := p.Net.Now() + time.Millisecond
			for _, off := range st.RaceOffUs {
				// arrive exactly at the instant of the call (latency 200us), give or take the offset
				sendAt := callAt - 200*time.Microsecond + time.Duration(off)*time.Microsecond
				c := mkAcc(st.RaceKind, inc)
				raw := p.Outer(c.Leaf())
				time.AfterFunc(sendAt-p.Net.Now(), func() { p.Net.SendFrom(src, p.Addr(), raw) })
				labels["race:"+st.RaceKind] = true
			}
			time.Sleep(callAt - p.Net.Now())
			lerr := p.M.Leave(time.Duration(st.TimeoutMs) * time.Millisecond)
			retAt := p.Net.Now()
			logf("%v Leave(%dms) -> %v (own inc before %d, %d racing %s, peer in view %v)", callAt, st.TimeoutMs, lerr, inc, st.RaceN, st.RaceKind, hadPeer)
			p.Settle()
			if lerr == nil {
				if !leftOK {
					labels["leave-ok"] = true
				} else {
					labels["leave-repeated"] = true
				}
				first := !leftOK
				leftOK = true
				li, state, err := ownInc()
				if first {
					leaveInc, leaveRet, leaveEvIdx = li, retAt, p.Rec.Len()
				}
				if err != nil {
					return fail("%s: %v", where, err)
				}
				if state != wire.StateLeft {
					return fail("%s: Leave returned nil but the node's own record is %s (history %v)", where, wire.StateName(state), hist)
				}
				if pl.Peers > 0 && hadPeer {
					ok, err := announced(retAt)
					if err != nil {
						return fail("%s: %v", where, err)
					}
					if !ok {
						return fail("%s: Leave returned nil at %v with live peers in view, but no dead{n0 from n0} had been sent to any of them (history %v)", where, retAt, hist)
					}
				}
			} else {
				labels["leave-error"] = true
			}
			if st.RaceN > 0 {
				res.NonTrivial = true
			}
		}
		// invariants after a successful Leave: never back in its own member list
		if leftOK {
			if contains(p.MemberNames(), "n0") {
				return fail("%s: after Leave returned nil the node lists itself as a member again (history %v)", where, hist)
			}
			_, state, err := ownInc()
			if err == nil && state != wire.StateLeft {
				return fail("%s: after Leave returned nil the node's own record became %s (history %v)", where, wire.StateName(state), hist)
			}
			if st.Kind == "accuse" {
				res.NonTrivial = true
				labels["accusation-after-leave:"+st.Acc] = true
			}
			// finality towards the peers: the leaver never announces itself alive at an
			// incarnation above its departure (peers would bring it back), and never
			// reports itself as joined again
			time.Sleep(2 * p.MC.GossipInterval)
			p.Settle()
			out, _, err := p.OutboundSince(0)
			if err != nil {
				return fail("%s: %v", where, err)
			}
			// wire order: once the departure has been announced, no alive about the node at a higher incarnation
			var depAt time.Duration = -1
			var depInc uint32
			for _, o := range out {
				if d, ok := o.Leaf.V.(*wire.Dead); ok && d.Node == "n0" && d.From == "n0" && depAt < 0 {
					depAt, depInc = o.T, d.Incarnation
				}
				if a, ok := o.Leaf.V.(*wire.Alive); ok && a.Node == "n0" && depAt >= 0 && o.T >= depAt && a.Incarnation > depInc {
					return fail("%s: after announcing its departure at incarnation %d the node announced itself alive at incarnation %d to %s (history %v)", where, depInc, a.Incarnation, o.Dst, hist)
				}
				if a, ok := o.Leaf.V.(*wire.Alive); ok && a.Node == "n0" && o.T > leaveRet && a.Incarnation > leaveInc {
					return fail("%s: after leaving at incarnation %d the node announced itself alive at incarnation %d to %s (history %v)", where, leaveInc, a.Incarnation, o.Dst, hist)
				}
			}
			// event order: after its own leave event the node never reports itself joined or updated again
			seenLeave := false
			for _, e := range p.Rec.Events() {
				if e.Name != "n0" {
					continue
				}
				if e.Kind == "leave" {
					seenLeave = true
				} else if seenLeave && (e.Kind == "join" || e.Kind == "update") {
					return fail("%s: after its own leave event the node delivered %v about itself (history %v)", where, e, hist)
				}
			}
			_ = leaveEvIdx
		}
		logf("%s", where)
	}
	res.NTKeys = nil
	return done()
}

func TestLeaver(t *testing.T) {
	theT = t
	vfx.Check(t, genLPlan, runLPlan)
}
