// C08 — graceful leave is final; a member's name and address cannot be
// hijacked. Peer role: the real node receives leave messages and alive claims
// (same or different address) about a subject in every prior state and age.
package c08

import (
	"fmt"
	"net"
	"sort"
	"strings"
	"testing"
	"testing/synctest"
	"time"

	"pgregory.net/rapid"

	"verif/harness/puppet"
	"verif/harness/vfx"
	"verif/harness/wire"
)

func TestMain(m *testing.M) { vfx.Main(m) }

type PStep struct {
	Kind    string // leave | alive | sleep | dead | suspect
	IncD    int    `json:",omitempty"` // incarnation = held + IncD
	Alt     int    `json:",omitempty"` // alive: 0 same address, 1 other IP, 2 other port
	Carrier string `json:",omitempty"`
	SleepMs int    `json:",omitempty"`
}

type PPlan struct {
	Seed      uint64
	ReclaimMs int
	Init      string // alive | suspect | dead | left
	InitInc   uint32
	Steps     []PStep
}

func genPPlan(t *rapid.T) PPlan {
	p := PPlan{Seed: rapid.Uint64Range(1, 1<<40).Draw(t, "seed")}
	p.ReclaimMs = rapid.SampledFrom([]int{0, 2000, 3600000}).Draw(t, "reclaim")
	p.Init = rapid.SampledFrom([]string{"alive", "alive", "suspect", "dead", "left"}).Draw(t, "init")
	p.InitInc = uint32(rapid.IntRange(1, 3).Draw(t, "inc"))
	p.Steps = rapid.SliceOfN(rapid.Custom(func(t *rapid.T) PStep {
		switch rapid.IntRange(0, 9).Draw(t, "k") {
		case 0, 1:
			return PStep{Kind: "sleep", SleepMs: rapid.SampledFrom([]int{1, 300, 1000, 3000, 5000}).Draw(t, "ms")}
		case 2:
			return PStep{Kind: rapid.SampledFrom([]string{"dead", "suspect"}).Draw(t, "acc"), IncD: rapid.IntRange(0, 1).Draw(t, "incd")}
		case 3, 4, 5:
			return PStep{Kind: "leave", IncD: rapid.SampledFrom([]int{-1, 0, 0, 1, 3}).Draw(t, "incd"),
				Carrier: rapid.SampledFrom([]string{"single", "compound", "compress", "pp", "pp-join"}).Draw(t, "car")}
		}
		return PStep{Kind: "alive", IncD: rapid.SampledFrom([]int{-1, 0, 0, 1, 2}).Draw(t, "incd"), Alt: rapid.SampledFrom([]int{0, 0, 1, 1, 2}).Draw(t, "alt"),
			Carrier: rapid.SampledFrom([]string{"single", "compound", "compress", "pp", "pp-join"}).Draw(t, "car")}
	}), 1, 8).Draw(t, "steps")
	return p
}

var theT *testing.T

func runPPlan(pl PPlan) (res vfx.Result) {
	synctest.Test(theT, func(t *testing.T) { res = runP(pl) })
	return
}

func runP(pl PPlan) (res vfx.Result) {
	labels := map[string]bool{}
	var hist []string
	done := func() vfx.Result {
		res.History = hist
		for l := range labels {
			res.Labels = append(res.Labels, l)
		}
		sort.Strings(res.Labels)
		return res
	}
	fail := func(f string, a ...any) vfx.Result { res.Err = fmt.Errorf(f, a...); return done() }
	conf := puppet.NodeConf{Name: "n0", IP: "10.0.0.1", Port: 7946, IndirectChecks: 2, ReclaimMs: pl.ReclaimMs, GossipToDeadMs: 3600000}
	p, err := puppet.New(pl.Seed, conf)
	if err != nil {
		return fail("create: %v", err)
	}
	defer func() { p.Shutdown(); time.Sleep(20 * time.Second) }()
	vsn := []uint8{1, 5, 2, 0, 0, 0}
	h := p.AddPeer("h1", "10.0.0.9", 7946, vsn)
	p.Inject(h.Addr(), [][]byte{puppet.Claim{Kind: "alive", Node: "h1", Inc: 1, Addr: h.IPBytes(), Port: 7946, Vsn: vsn}.Leaf()}, puppet.Carrier{})
	x := p.AddPeer("x", "10.0.0.11", 7946, vsn)
	// the hijacker answers at the other addresses so that an adopted record is probed successfully
	p.AddPeer("x-alt-ip", "10.0.0.111", 7946, vsn).OnLeaf = nil
	p.AddPeer("x-alt-port", "10.0.0.11", 7999, vsn)
	for _, name := range []string{"x-alt-ip", "x-alt-port"} {
		pe := p.Peers[name]
		pe.Name = "x" // it claims to be x
	}
	p.Inject(x.Addr(), [][]byte{puppet.Claim{Kind: "alive", Node: "x", Inc: pl.InitInc, Addr: x.IPBytes(), Port: 7946, Meta: []byte("orig"), Vsn: vsn}.Leaf()}, puppet.Carrier{})
	var deadSince time.Duration = -1 // injected death/leave instant (exact), -1 unknown
	switch pl.Init {
	case "suspect":
		p.Inject(h.Addr(), [][]byte{puppet.Claim{Kind: "suspect", Node: "x", Inc: pl.InitInc, From: "h1"}.Leaf()}, puppet.Carrier{})
	case "dead":
		deadSince = p.Net.Now()
		p.Inject(h.Addr(), [][]byte{puppet.Claim{Kind: "dead", Node: "x", Inc: pl.InitInc, From: "h1"}.Leaf()}, puppet.Carrier{})
	case "left":
		deadSince = p.Net.Now()
		p.Inject(h.Addr(), [][]byte{puppet.Claim{Kind: "left", Node: "x", Inc: pl.InitInc}.Leaf()}, puppet.Carrier{})
	}
	last, err := p.Dump()
	if err != nil {
		return fail("%v", err)
	}
	lastT := p.Net.Now()
	reclaim := time.Duration(pl.ReclaimMs) * time.Millisecond
	for i, st := range pl.Steps {
		if st.Kind == "sleep" {
			time.Sleep(time.Duration(st.SleepMs) * time.Millisecond)
			p.Settle()
			d, err := p.Dump()
			if err != nil {
				return fail("%v", err)
			}
			if puppet.Strength(d["x"].State) == 2 && puppet.Strength(last["x"].State) != 2 {
				deadSince = -1 // died on the node's own timer somewhere in between
			}
			prevT := lastT
			last, lastT = d, p.Net.Now()
			_ = prevT
			continue
		}
		p.AvoidProbeTick(12 * time.Millisecond)
		pre, err := p.Dump()
		if err != nil {
			return fail("%v", err)
		}
		prevDumpT := lastT
		if puppet.Strength(pre["x"].State) == 2 && puppet.Strength(last["x"].State) != 2 {
			deadSince = -1
		}
		rec, present := pre["x"]
		if !present {
			return fail("step %d: the subject vanished from the table (no reaping is configured): %v", i, pre)
		}
		held := int64(rec.Inc)
		inc := held + int64(st.IncD)
		if inc < 0 {
			inc = 0
		}
		evIdx := p.Rec.Len()
		now := p.Net.Now()
		where := fmt.Sprintf("step %d", i)
		car := puppet.Carrier{Kind: st.Carrier}
		var c puppet.Claim
		switch st.Kind {
		case "dead":
			c = puppet.Claim{Kind: "dead", Node: "x", Inc: uint32(inc), From: "h1"}
			car = puppet.Carrier{}
		case "suspect":
			c = puppet.Claim{Kind: "suspect", Node: "x", Inc: uint32(inc), From: "h1"}
			car = puppet.Carrier{}
		case "leave":
			c = puppet.Claim{Kind: "left", Node: "x", Inc: uint32(inc), Addr: net.ParseIP(rec.Addr).To4(), Port: rec.Port, Meta: []byte(rec.Meta), Vsn: vsn}
			if strings.HasPrefix(st.Carrier, "pp") {
				c.Kind = "pp-left"
			}
		case "alive":
			c = puppet.Claim{Kind: "alive", Node: "x", Inc: uint32(inc), Addr: net.ParseIP(rec.Addr).To4(), Port: rec.Port, Meta: []byte("claimed"), Vsn: vsn}
			switch st.Alt {
			case 1:
				if rec.Addr == "10.0.0.111" {
					c.Addr = []byte{10, 0, 0, 11}
				} else {
					c.Addr = []byte{10, 0, 0, 111}
				}
			case 2:
				if rec.Port == 7999 {
					c.Port = 7946
				} else {
					c.Port = 7999
				}
			}
			if strings.HasPrefix(st.Carrier, "pp") {
				c.Kind = "pp-alive"
			}
		}
		where += " " + c.String() + " via " + st.Carrier + fmt.Sprintf(" (prior %v)", rec)
		if err := p.InjectClaim(c, car, h.Addr(), h.EP); err != nil {
			hist = append(hist, where+" push/pull error: "+err.Error())
		}
		post, err := p.Dump()
		if err != nil {
			return fail("%s: %v", where, err)
		}
		cur := post["x"]
		evs := p.Rec.Since(evIdx)
		count := func(kind string) (n int, e puppet.Ev) {
			for _, ev := range evs {
				if ev.Name == "x" && ev.Kind == kind {
					n++
					e = ev
				}
			}
			return
		}
		priorStr := puppet.Strength(rec.State)
		ownDeath := rec.State == wire.StateSuspect && cur.State == wire.StateDead && cur.Inc == rec.Inc // the node's own timer fired in the window
		switch st.Kind {
		case "dead", "suspect":
			if st.Kind == "dead" && priorStr != 2 && puppet.Strength(cur.State) == 2 {
				deadSince = now
			}
		case "leave":
			lab := fmt.Sprintf("leave|prior=%s|incd=%d", wire.StateName(rec.State), st.IncD)
			labels[lab] = true
			if priorStr != 2 && inc >= held && !ownDeath {
				// (b) recorded as left, not dead, with exactly one leave event
				res.NonTrivial = true
				res.NTKeys = append(res.NTKeys, lab+"|"+st.Carrier)
				if cur.State != wire.StateLeft || int64(cur.Inc) != inc {
					return fail("%s: a member holding the subject %s@%d must record the departure as left@%d, got %v", where, wire.StateName(rec.State), held, inc, cur)
				}
				if n, _ := count("leave"); n != 1 {
					return fail("%s: expected exactly one leave event, got %d (%v)", where, n, evs)
				}
				if contains(p.MemberNames(), "x") {
					return fail("%s: Members() still lists the subject after its departure", where)
				}
				deadSince = now
			}
		case "alive":
			differs := st.Alt != 0
			lab := fmt.Sprintf("alive|prior=%s|differs=%v|incd=%d", wire.StateName(rec.State), differs, st.IncD)
			// age of the death, if the record is dead
			ageKnown, old := false, false
			if rec.State == wire.StateDead && deadSince >= 0 {
				age := now - deadSince
				if reclaim > 0 && age > reclaim+100*time.Millisecond {
					ageKnown, old = true, true
				} else if reclaim == 0 || age < reclaim-100*time.Millisecond {
					ageKnown, old = true, false
				}
			}
			if rec.State == wire.StateDead {
				lab += fmt.Sprintf("|ageKnown=%v|old=%v", ageKnown, old)
			}
			labels[lab] = true
			switch {
			case !differs && priorStr == 2 && inc <= held:
				// (c) an alive no newer than the departure/death from the same address changes nothing
				res.NonTrivial = true
				res.NTKeys = append(res.NTKeys, lab+"|"+st.Carrier)
				if cur != rec {
					return fail("%s: alive no newer than the recorded %s changed the record: %v -> %v", where, wire.StateName(rec.State), rec, cur)
				}
				if n, _ := count("join"); n != 0 {
					return fail("%s: the departed member was brought back (join event)", where)
				}
				if contains(p.MemberNames(), "x") {
					return fail("%s: Members() lists the departed member again", where)
				}
			case differs && (priorStr < 2 || (rec.State == wire.StateDead && ageKnown && !old)) && !ownDeath:
				// (d) conflict: address untouched, conflict callback instead
				res.NonTrivial = true
				res.NTKeys = append(res.NTKeys, lab+"|"+st.Carrier)
				if cur.Addr != rec.Addr || cur.Port != rec.Port {
					return fail("%s: a claim from a different address changed the address of a %s member: %v -> %v", where, wire.StateName(rec.State), rec, cur)
				}
				if cur.Inc != rec.Inc || cur.Meta != rec.Meta || (cur.State != rec.State) {
					return fail("%s: a conflicting claim changed the record: %v -> %v", where, rec, cur)
				}
				if inc > held {
					n, e := count("conflict")
					if n < 1 {
						return fail("%s: no conflict callback for a newer alive claim from a different address (events %v)", where, evs)
					}
					want := fmt.Sprintf("%s:%d", net.IP(c.Addr), c.Port)
					if e.Addr != rec.Addr || e.Port != rec.Port || e.Other != want {
						return fail("%s: conflict callback carried existing=%s:%d other=%s, want existing=%s:%d other=%s", where, e.Addr, e.Port, e.Other, rec.Addr, rec.Port, want)
					}
				}
				if n, _ := count("join"); n != 0 {
					return fail("%s: conflicting claim fired a join event", where)
				}
			case differs && (rec.State == wire.StateLeft || (rec.State == wire.StateDead && ageKnown && old)):
				// (e) the name is reusable from the new address
				res.NonTrivial = true
				res.NTKeys = append(res.NTKeys, lab+"|"+st.Carrier)
				wantAddr := net.IP(c.Addr).String()
				if cur.State != wire.StateAlive || cur.Addr != wantAddr || cur.Port != c.Port || int64(cur.Inc) != inc {
					return fail("%s: the name of a %s member (reclaim %v) must be reusable from the new address: got %v, want alive at %s:%d inc %d", where, wire.StateName(rec.State), reclaim, cur, wantAddr, c.Port, inc)
				}
				if n, e := count("join"); n != 1 || e.Addr != wantAddr || e.Port != c.Port {
					return fail("%s: expected one join event carrying the new address, got %v", where, evs)
				}
				if v := p.MemberView()["x"]; !strings.HasPrefix(v, fmt.Sprintf("%s:%d ", wantAddr, c.Port)) {
					return fail("%s: Members() shows the subject as %q", where, v)
				}
				deadSince = -1
			}
		}
		hist = append(hist, where+" -> "+cur.String())
		last, lastT = post, p.Net.Now()
		_ = prevDumpT
	}
	return done()
}

func contains(s []string, x string) bool {
	for _, y := range s {
		if y == x {
			return true
		}
	}
	return false
}

func TestLeaveFinalAndHijack(t *testing.T) {
	theT = t
	vfx.Check(t, genPPlan, runPPlan)
}
