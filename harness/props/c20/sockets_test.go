package c20

import (
	"fmt"
	"net"
	"strings"
	"sync"
	"testing"
	"time"

	"github.com/hashicorp/memberlist"
	"pgregory.net/rapid"

	"verif/harness/puppet"
	"verif/harness/realnet"
	"verif/harness/vfx"
)

// Lifecycle over real loopback sockets. The simulated transport replaces net_transport.go and the default-transport
// branch of Create, so this variant drives memberlist's own NetTransport (created by Create itself, handed over, or
// hidden behind the plain Transport interface so that the node-aware shim is used): generated groups of concurrent
// calls, then
//   - every Shutdown that returned finds the node's TCP listener and UDP socket closed (this process holds no socket
//     on that port any more: kernel socket table x own descriptor table),
//   - a new node can be created on the same port straight away (restart),
//   - a Create that fails half way (UDP port taken, TCP port free) leaves no listener behind,
//   - after everything was shut down no goroutine is left inside memberlist (polling up to 10 s; TCPTimeout 300 ms).

type SockPlan struct {
	Seed      uint64
	Peers     int
	Mode      int
	Label     string
	Enc       int // 0 none, 1 keyring, 2 SecretKey only, 3 SecretKey on top of a keyring
	Groups    [][]string
	Restart   bool
	HalfBound int // 0 no, 1 UDP port taken, 2 TCP port taken
}

var sockKinds = []string{"leave", "shutdown", "shutdown", "members", "localnode", "update", "besteffort", "reliable", "health", "join", "ping"}

func genSockPlan(t *rapid.T) SockPlan {
	p := SockPlan{Seed: rapid.Uint64Range(1, 1<<30).Draw(t, "seed"), Peers: rapid.IntRange(0, 2).Draw(t, "peers"),
		Mode: rapid.IntRange(0, 2).Draw(t, "mode"), Label: rapid.SampledFrom([]string{"", "", "lbl"}).Draw(t, "label"),
		Enc: rapid.IntRange(0, 3).Draw(t, "enc"), Restart: rapid.Bool().Draw(t, "restart"), HalfBound: rapid.SampledFrom([]int{0, 0, 1, 2}).Draw(t, "half")}
	ng := rapid.IntRange(1, 3).Draw(t, "ng")
	shutdown := false
	for g := 0; g < ng; g++ {
		var grp []string
		n := rapid.IntRange(1, 5).Draw(t, "n")
		for i := 0; i < n; i++ {
			grp = append(grp, rapid.SampledFrom(sockKinds).Draw(t, "k"))
		}
		has := false
		for _, k := range grp {
			if k == "shutdown" {
				has = true
			}
		}
		if shutdown || has {
			for i, k := range grp {
				if k == "leave" { // Leave after (or racing) Shutdown is the documented exclusion
					grp[i] = "localnode"
				}
			}
		}
		shutdown = shutdown || has
		p.Groups = append(p.Groups, grp)
	}
	return p
}

var sockMu sync.Mutex

func runSock(pl SockPlan) (res vfx.Result) {
	sockMu.Lock()
	defer sockMu.Unlock()
	if left := realnet.WaitNoLibGoroutines(5 * time.Second); len(left) > 0 {
		res.Err = fmt.Errorf("goroutines inside memberlist before the case started:\n%s", strings.Join(left, "\n\n"))
		return
	}
	mk := func(i int) puppet.NodeConf {
		c := puppet.NodeConf{Name: fmt.Sprintf("s%d", i), IndirectChecks: 1, ProbeIntervalMs: 60, ProbeTimeoutMs: 30,
			GossipIntervalMs: 10, PushPullMs: 150, TCPTimeoutMs: 300, GossipToDeadMs: 50, AwarenessMax: 2, SuspicionMult: 1, Label: pl.Label}
		switch pl.Enc {
		case 1, 2:
			c.Keys = [][]byte{[]byte("0123456789abcdef")}
		case 3:
			c.Keys = [][]byte{[]byte("0123456789abcdef"), []byte("fedcba9876543210fedcba9876543210")}
		}
		return c
	}
	var nodes []*realnet.Node
	defer func() {
		for _, n := range nodes {
			_ = n.M.Shutdown()
		}
		if res.Err == nil {
			if left := realnet.WaitNoLibGoroutines(10 * time.Second); len(left) > 0 {
				res.Err = fmt.Errorf("%d goroutine(s) still inside memberlist 10 s after every node was shut down (TCPTimeout 300 ms):\n%s", len(left), strings.Join(left, "\n\n"))
			}
		}
		if res.Err == nil {
			for _, n := range nodes {
				if own := realnet.OwnSocketsOnPort(n.Port); len(own) > 0 {
					res.Err = fmt.Errorf("node %s was shut down but this process still holds %v", n.NC.Name, own)
				}
			}
		}
	}()
	sub, err := realnet.Start(mk(0), pl.Mode, 0, pl.Enc >= 2)
	if err != nil {
		res.Err = fmt.Errorf("cannot create the node: %v", err)
		return
	}
	nodes = append(nodes, sub)
	for i := 1; i <= pl.Peers; i++ {
		nd, err := realnet.Start(mk(i), realnet.ModeDefault, 0, false)
		if err != nil {
			res.Err = fmt.Errorf("cannot create peer %d: %v", i, err)
			return
		}
		nodes = append(nodes, nd)
		// joining is not what is checked here, and a 300 ms stream deadline can pass on a loaded machine
		joined := false
		for a := 0; a < 4 && !joined; a++ {
			_, err := nd.M.Join([]string{sub.Addr()})
			joined = err == nil
		}
		if !joined {
			res.Labels = append(res.Labels, "sock-join-failed")
		}
	}
	res.Labels = append(res.Labels, fmt.Sprintf("sock-mode-%d", pl.Mode), fmt.Sprintf("sock-enc-%d", pl.Enc))

	if pl.HalfBound != 0 {
		// a Create that cannot get both ports must fail and leave nothing behind
		tl, err := net.ListenTCP("tcp", &net.TCPAddr{IP: net.IPv4(127, 0, 0, 1)})
		if err == nil {
			port := tl.Addr().(*net.TCPAddr).Port
			var ul *net.UDPConn
			if pl.HalfBound == 1 {
				ul, err = net.ListenUDP("udp", &net.UDPAddr{IP: net.IPv4(127, 0, 0, 1), Port: port})
				_ = tl.Close()
				tl = nil
			}
			if err == nil {
				nd, cerr := realnet.Start(mk(9), realnet.ModeDefault, port, false)
				if cerr == nil {
					_ = nd.M.Shutdown()
					res.Err = fmt.Errorf("Create succeeded on port %d although the harness holds its %s port", port, map[int]string{1: "UDP", 2: "TCP"}[pl.HalfBound])
				}
				if ul != nil {
					_ = ul.Close()
				}
				if tl != nil {
					_ = tl.Close()
				}
				if res.Err == nil {
					if own := realnet.OwnSocketsOnPort(port); len(own) > 0 {
						res.Err = fmt.Errorf("Create failed (%v) but left sockets behind on port %d: %v", cerr, port, own)
					}
				}
				if res.Err != nil {
					return
				}
				res.Labels = append(res.Labels, fmt.Sprintf("sock-halfbound-%d", pl.HalfBound))
			} else if tl != nil {
				_ = tl.Close()
			}
		}
	}

	m := sub.M
	target := &memberlist.Node{Name: "ghost", Addr: []byte{127, 0, 0, 1}, Port: 1}
	if len(nodes) > 1 {
		target = nodes[1].M.LocalNode()
	}
	var mu sync.Mutex
	var firstErr error
	fail := func(e error) {
		mu.Lock()
		if firstErr == nil {
			firstErr = e
		}
		mu.Unlock()
	}
	shutdownReturned := false
	for gi, grp := range pl.Groups {
		var wg sync.WaitGroup
		start := make(chan struct{})
		for _, k := range grp {
			k := k
			wg.Add(1)
			go func() {
				defer wg.Done()
				<-start
				err := vfx.Guard(func() error {
					switch k {
					case "leave":
						_ = m.Leave(50 * time.Millisecond)
					case "shutdown":
						if err := m.Shutdown(); err != nil {
							return err
						}
						if own := realnet.OwnSocketsOnPort(sub.Port); len(own) > 0 {
							return fmt.Errorf("Shutdown returned while this process still holds %v", own)
						}
					case "members":
						_ = m.Members()
					case "localnode":
						if m.LocalNode() == nil {
							return fmt.Errorf("LocalNode() == nil")
						}
					case "update":
						_ = m.UpdateNode(30 * time.Millisecond)
					case "besteffort":
						_ = m.SendBestEffort(target, []byte("sock"))
					case "reliable":
						_ = m.SendReliable(target, []byte("sock"))
					case "health":
						_ = m.GetHealthScore()
					case "join":
						_, _ = m.Join([]string{target.Address()})
					case "ping":
						_, _ = m.Ping(target.Name, &net.UDPAddr{IP: net.IP(target.Addr), Port: int(target.Port)})
					}
					return nil
				})
				if err != nil {
					fail(fmt.Errorf("group %d %v: %s: %v", gi, grp, k, err))
				}
			}()
		}
		close(start)
		fin := make(chan struct{})
		go func() { wg.Wait(); close(fin) }()
		select {
		case <-fin:
		case <-time.After(60 * time.Second):
			res.Err = fmt.Errorf("group %d %v did not return within 60 s of real time (every call is bounded by about 1 s): deadlock", gi, grp)
			return
		}
		for _, k := range grp {
			if k == "shutdown" {
				shutdownReturned = true
			}
		}
		time.Sleep(20 * time.Millisecond)
	}
	if firstErr != nil {
		res.Err = firstErr
		return
	}
	res.NonTrivial = true
	if shutdownReturned {
		res.Labels = append(res.Labels, "sock-shutdown")
	}
	if pl.Restart {
		if !shutdownReturned {
			if err := m.Shutdown(); err != nil {
				res.Err = err
				return
			}
		}
		// the same name on the same port, at once: the old sockets are gone
		nd, err := realnet.Start(mk(0), realnet.ModeDefault, sub.Port, pl.Enc >= 2)
		if err != nil {
			if own := realnet.OwnSocketsOnPort(sub.Port); len(own) > 0 {
				res.Err = fmt.Errorf("restart on port %d right after Shutdown failed (%v); this process still holds %v", sub.Port, err, own)
				return
			}
			res.Labels = append(res.Labels, "sock-restart-port-taken-by-another-process")
			return
		}
		nodes = append(nodes, nd)
		res.Labels = append(res.Labels, "sock-restart")
		if pl.Peers > 0 {
			if _, err := nd.M.Join([]string{nodes[1].Addr()}); err != nil {
				res.Labels = append(res.Labels, "sock-join-failed")
			}
		}
	}
	return
}

func TestLifecycleSockets(t *testing.T) {
	vfx.Check(t, genSockPlan, runSock)
}
