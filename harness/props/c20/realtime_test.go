package c20

import (
	"fmt"
	"sync"
	"testing"
	"time"

	"github.com/hashicorp/memberlist"
	"pgregory.net/rapid"

	"verif/harness/cluster"
	"verif/harness/puppet"
	"verif/harness/vfx"
)

// Real-time variant (no virtual clock): the calls that serialise on a mutex
// while another one waits - Leave || Leave in particular - cannot run inside a
// synctest bubble (a goroutine parked on a mutex is not durably blocked, so
// virtual time would stop). Here every call group runs truly concurrently,
// with short real intervals, preferably under the race detector.

type RTPlan struct {
	Seed   uint64
	Peers  int
	Groups [][]string
}

var rtKinds = []string{"leave", "leave", "shutdown", "members", "nummembers", "localnode", "update", "besteffort", "reliable", "health", "join"}

func genRTPlan(t *rapid.T) RTPlan {
	p := RTPlan{Seed: rapid.Uint64Range(1, 1<<30).Draw(t, "seed"), Peers: rapid.IntRange(0, 2).Draw(t, "peers")}
	ng := rapid.IntRange(1, 4).Draw(t, "ng")
	shutdown := false
	for g := 0; g < ng; g++ {
		var grp []string
		n := rapid.IntRange(2, 6).Draw(t, "n")
		for i := 0; i < n; i++ {
			k := rapid.SampledFrom(rtKinds).Draw(t, "k")
			if k == "leave" && shutdown {
				k = "members"
			}
			grp = append(grp, k)
		}
		// Leave must not start after a Shutdown returned: a group holds either
		for _, k := range grp {
			if k == "shutdown" {
				shutdown = true
			}
		}
		if shutdown {
			for i, k := range grp {
				if k == "leave" {
					grp[i] = "localnode"
				}
			}
		}
		p.Groups = append(p.Groups, grp)
	}
	return p
}

func runRT(pl RTPlan) (res vfx.Result) {
	c := cluster.New(pl.Seed)
	c.Net.SetRecord(false)
	mk := func(i int) puppet.NodeConf {
		return puppet.NodeConf{Name: fmt.Sprintf("n%d", i), IP: fmt.Sprintf("10.0.0.%d", i+1), Port: 7946, IndirectChecks: 1, ProbeIntervalMs: 40, ProbeTimeoutMs: 10,
			GossipIntervalMs: 8, PushPullMs: 100, TCPTimeoutMs: 100, GossipToDeadMs: 30, AwarenessMax: 2, SuspicionMult: 1}
	}
	sub, err := c.Start(mk(0))
	if err != nil {
		res.Err = err
		return
	}
	var peers []*cluster.Node
	for i := 1; i <= pl.Peers; i++ {
		nd, err := c.Start(mk(i))
		if err != nil {
			res.Err = err
			return
		}
		peers = append(peers, nd)
		_, _ = nd.M.Join([]string{sub.Addr()})
	}
	defer func() {
		_ = sub.M.Shutdown()
		for _, nd := range peers {
			_ = nd.M.Shutdown()
		}
	}()
	m := sub.M
	sub.EP.ShutdownDelay = 15 * time.Millisecond // tearing down real listeners takes a moment
	var mu sync.Mutex
	var firstErr error
	target := &memberlist.Node{Name: "ghost", Addr: []byte{10, 0, 0, 99}, Port: 7946}
	if len(peers) > 0 {
		target = &memberlist.Node{Name: peers[0].Name(), Addr: peers[0].EP.IP(), Port: 7946}
	}
	multiLeave := false
	for gi, grp := range pl.Groups {
		var wg sync.WaitGroup
		start := make(chan struct{})
		leaves := 0
		for _, k := range grp {
			if k == "leave" {
				leaves++
			}
			k := k
			wg.Add(1)
			go func() {
				defer wg.Done()
				<-start
				err := vfx.Guard(func() error {
					switch k {
					case "leave":
						_ = m.Leave(30 * time.Millisecond)
					case "shutdown":
						if err := m.Shutdown(); err != nil {
							return err
						}
						// whichever call this was: once it has returned, the transport is closed
						if !sub.EP.IsShutdown() {
							return fmt.Errorf("Shutdown returned while the transport was still open (another Shutdown call was still tearing it down)")
						}
						return nil
					case "members":
						_ = m.Members()
					case "nummembers":
						_ = m.NumMembers()
					case "localnode":
						if m.LocalNode() == nil {
							return fmt.Errorf("LocalNode() == nil")
						}
					case "update":
						_ = m.UpdateNode(20 * time.Millisecond)
					case "besteffort":
						_ = m.SendBestEffort(target, []byte("rt"))
					case "reliable":
						_ = m.SendReliable(target, []byte("rt"))
					case "health":
						_ = m.GetHealthScore()
					case "join":
						_, _ = m.Join([]string{fmt.Sprintf("%s:%d", "10.0.0.2", 7946)})
					}
					return nil
				})
				if err != nil {
					mu.Lock()
					if firstErr == nil {
						firstErr = fmt.Errorf("group %d %v: %s: %v", gi, grp, k, err)
					}
					mu.Unlock()
				}
			}()
		}
		if leaves >= 2 {
			multiLeave = true
		}
		close(start)
		fin := make(chan struct{})
		go func() { wg.Wait(); close(fin) }()
		select {
		case <-fin:
		case <-time.After(60 * time.Second):
			res.Err = fmt.Errorf("group %d %v did not return within 60 s of real time (every call is bounded by 0.2 s): deadlock", gi, grp)
			return
		}
		time.Sleep(40 * time.Millisecond)
	}
	res.Err = firstErr
	res.NonTrivial = true
	if multiLeave {
		res.Labels = append(res.Labels, "concurrent-leaves")
	}
	return
}

func TestLifecycleRealtime(t *testing.T) {
	vfx.Check(t, genRTPlan, runRT)
}
