// C20 — lifecycle safety: Leave / Shutdown and the query API in any order and
// interleaving, at every lifecycle stage incl. left-and-reaped.
package c20

import (
	"fmt"
	"sort"
	"strings"
	"sync"
	"testing"
	"testing/synctest"
	"time"

	"github.com/hashicorp/memberlist"
	"pgregory.net/rapid"

	"verif/harness/cluster"
	"verif/harness/puppet"
	"verif/harness/simnet"
	"verif/harness/vfx"
	"verif/harness/wire"
)

func TestMain(m *testing.M) { vfx.Main(m) }

type Call struct {
	Kind    string // join | leave | shutdown | members | nummembers | localnode | update | besteffort | reliable | ping | health | pv
	Arg     int    `json:",omitempty"` // timeout ms / peer index
	DelayUs int    `json:",omitempty"` // micro-delay inside the group
}

type Group struct {
	AfterMs int // sleep before the group
	Calls   []Call
}

type Plan struct {
	Seed         uint64
	Peers        int
	GTDMs        int  // GossipToTheDeadTime of the subject (short, so that the reaper runs)
	Faulty       bool // lossy network
	Frozen       bool `json:",omitempty"` // the subject also knows a frozen member: it swallows packets, accepts streams and never answers
	PeersLeaveMs int  `json:",omitempty"` // every peer leaves gracefully and shuts down at this instant (0 = never): the subject ends up alone among departed members
	TCPMs        int  `json:",omitempty"` // TCPTimeout of the subject (0 = 400 ms); 10 s is the documented default, far beyond the probe interval
	Groups       []Group
}

var queryKinds = []string{"members", "nummembers", "localnode", "health", "pv", "update", "besteffort", "reliable", "ping", "join"}

func genPlan(t *rapid.T) Plan {
	p := Plan{Seed: rapid.Uint64Range(1, 1<<40).Draw(t, "seed"), Peers: rapid.IntRange(0, 3).Draw(t, "peers"),
		GTDMs: rapid.SampledFrom([]int{500, 2000, 2000, 30000}).Draw(t, "gtd"), Faulty: rapid.IntRange(0, 3).Draw(t, "faulty") == 0}
	p.Frozen = rapid.Bool().Draw(t, "frozen")
	p.TCPMs = rapid.SampledFrom([]int{400, 400, 10000}).Draw(t, "tcpms")
	if p.Peers > 0 {
		p.PeersLeaveMs = rapid.SampledFrom([]int{0, 0, 400, 2000, 5000}).Draw(t, "peersleave")
	}
	ng := rapid.IntRange(1, 7).Draw(t, "ngroups")
	shutdown := false
	leaveInFlight := false
	leftEarlier := false // a Leave call of an earlier group has returned
	elapsed := 300       // the groups start 300 ms after the cluster formed
	for g := 0; g < ng; g++ {
		grp := Group{AfterMs: rapid.SampledFrom([]int{0, 1, 100, 700, 3000, 9000}).Draw(t, "after")}
		elapsed += grp.AfterMs
		// without a timeout (0) Leave and UpdateNode wait until the broadcast went out; that is only certain to happen
		// when nobody is left to tell (alone from the start, or every peer departed a while ago): then they return at once
		alone := !p.Frozen && (p.Peers == 0 || (p.PeersLeaveMs > 0 && elapsed >= p.PeersLeaveMs+1500))
		if grp.AfterMs >= 100 {
			if leaveInFlight {
				leftEarlier = true
			}
			leaveInFlight = false // Leave(timeout<=60ms here) has long returned
		}
		nc := rapid.IntRange(1, 4).Draw(t, "ncalls")
		for c := 0; c < nc; c++ {
			kinds := append([]string{}, queryKinds...)
			kinds = append(kinds, "shutdown")
			if !shutdown && !leaveInFlight {
				kinds = append(kinds, "leave", "leave")
			}
			k := rapid.SampledFrom(kinds).Draw(t, "kind")
			call := Call{Kind: k, DelayUs: rapid.SampledFrom([]int{0, 0, 1, 30, 2000}).Draw(t, "delay")}
			switch k {
			case "leave":
				call.Arg = rapid.SampledFrom([]int{5, 60}).Draw(t, "timeout")
				if alone && rapid.Bool().Draw(t, "notimeout") {
					call.Arg = 0
				}
				// a Leave call is started strictly before any Shutdown of its group; two Leave
				// calls never overlap in the bubble (see the real-time test for that)
				call.DelayUs = 0
				leaveInFlight = true
			case "shutdown":
				shutdown = true
				if call.DelayUs == 0 {
					call.DelayUs = 1
				}
			case "update":
				call.Arg = rapid.SampledFrom([]int{5, 300}).Draw(t, "timeout")
				// (once the node has left nothing is announced any more: no wait either, whoever is still around)
				if (alone || leftEarlier) && !shutdown && rapid.Bool().Draw(t, "notimeout") {
					call.Arg = 0
				}
			case "join", "besteffort", "reliable", "ping":
				call.Arg = rapid.IntRange(0, 3).Draw(t, "peer")
			}
			grp.Calls = append(grp.Calls, call)
		}
		// a group that contains a shutdown must not contain a leave that could start after it returned
		hasShutdown, hasLeave := false, false
		for _, c := range grp.Calls {
			hasShutdown = hasShutdown || c.Kind == "shutdown"
			hasLeave = hasLeave || c.Kind == "leave"
		}
		_ = hasLeave
		if hasShutdown {
			// waiting without a timeout for a broadcast while Shutdown stops the gossip is the caller's own deadlock
			for i := range grp.Calls {
				if (grp.Calls[i].Kind == "leave" || grp.Calls[i].Kind == "update") && grp.Calls[i].Arg == 0 {
					grp.Calls[i].Arg = 5
				}
			}
		}
		p.Groups = append(p.Groups, grp)
		if hasShutdown {
			shutdown = true
		}
	}
	return p
}

var theT *testing.T

func runPlan(pl Plan) (res vfx.Result) {
	err := vfx.Guard(func() error {
		synctest.Test(theT, func(t *testing.T) { res = run(pl) })
		return nil
	})
	if err != nil && res.Err == nil {
		if strings.Contains(err.Error(), "blocked goroutines remain") || strings.Contains(err.Error(), "deadlock") {
			res.Err = fmt.Errorf("goroutines of the node are still blocked after Shutdown plus the drain period (leak or deadlock): %v", firstLines(err.Error(), 60))
		} else {
			res.Err = err
		}
	}
	return
}

func firstLines(s string, n int) string {
	l := strings.Split(s, "\n")
	if len(l) > n {
		l = l[:n]
	}
	return strings.Join(l, "\n")
}

const userMarker = "LC-USER-"

func run(pl Plan) (res vfx.Result) {
	labels := map[string]bool{}
	var hist []string
	var hmu sync.Mutex
	logf := func(f string, a ...any) { hmu.Lock(); hist = append(hist, fmt.Sprintf(f, a...)); hmu.Unlock() }
	var firstErr error
	setErr := func(e error) {
		hmu.Lock()
		if firstErr == nil {
			firstErr = e
		}
		hmu.Unlock()
	}
	done := func() vfx.Result {
		res.History = hist
		for l := range labels {
			res.Labels = append(res.Labels, l)
		}
		sort.Strings(res.Labels)
		return res
	}
	c := cluster.New(pl.Seed)
	const P = 500
	tcpMs := pl.TCPMs
	if tcpMs == 0 {
		tcpMs = 400
	}
	tcpTO := time.Duration(tcpMs) * time.Millisecond
	mk := func(i int) puppet.NodeConf {
		nc := puppet.NodeConf{Name: fmt.Sprintf("n%d", i), IP: fmt.Sprintf("10.0.0.%d", i+1), Port: 7946, IndirectChecks: 2, ProbeIntervalMs: P, ProbeTimeoutMs: 150,
			GossipIntervalMs: 100, PushPullMs: 2000, TCPTimeoutMs: 400, GossipToDeadMs: pl.GTDMs, AwarenessMax: 2, SuspicionMult: 2}
		if i == 0 {
			nc.TCPTimeoutMs = tcpMs
		}
		return nc
	}
	sub, err := c.Start(mk(0))
	if err != nil {
		res.Err = err
		return done()
	}
	var peers []*cluster.Node
	for i := 1; i <= pl.Peers; i++ {
		nd, err := c.Start(mk(i))
		if err != nil {
			res.Err = err
			return done()
		}
		peers = append(peers, nd)
		_, _ = nd.M.Join([]string{sub.Addr()})
	}
	if pl.Frozen {
		fz := c.Net.NewEndpoint("10.0.0.77", 7946, frozenPeer{})
		c.Net.SendFrom(fz.Addr(), sub.Addr(), wire.Encode(wire.AliveMsg, &wire.Alive{Incarnation: 1, Node: "frozen", Addr: []byte{10, 0, 0, 77}, Port: 7946, Vsn: []uint8{1, 5, 2, 0, 0, 0}}))
		labels["frozen-member"] = true
	}
	if pl.Faulty {
		c.SetFaults(cluster.Faults{LossPct: 30, DupPct: 10, MinLatUs: 50, MaxLatUs: 50000, RefusePct: 20, CutPct: 20}, true)
	}
	time.Sleep(300 * time.Millisecond)
	var pmu sync.Mutex
	peersDown := false
	leaving := map[*cluster.Node]bool{} // peers whose own leave sequence has started (it ends with their Shutdown)
	if pl.PeersLeaveMs > 0 {
		labels["peers-leave"] = true
		for _, nd := range peers {
			nd := nd
			time.AfterFunc(time.Duration(pl.PeersLeaveMs)*time.Millisecond, func() {
				// (never wait with the mutex held: inside the bubble time stands still while anybody waits for a mutex)
				pmu.Lock()
				if peersDown {
					pmu.Unlock()
					return // the run is over
				}
				leaving[nd] = true
				pmu.Unlock()
				_ = nd.M.Leave(time.Second)
				_ = nd.M.Shutdown()
			})
		}
	}
	m := sub.M
	var userDialTimes []time.Duration
	var lateLabels []string // set by call goroutines (under smu), merged after each group
	var shutdownReturned time.Duration = -1
	var smu sync.Mutex
	stage := "joined"
	if pl.Peers == 0 {
		stage = "created"
	}
	leftAt := time.Duration(-1)
	leaveOKAt := time.Duration(-1)
	peerAddr := func(i int) (string, *memberlist.Node) {
		if len(peers) == 0 {
			return "10.0.0.99:7946", &memberlist.Node{Name: "ghost", Addr: []byte{10, 0, 0, 99}, Port: 7946}
		}
		pn := peers[i%len(peers)]
		return pn.Addr(), &memberlist.Node{Name: pn.Name(), Addr: pn.EP.IP(), Port: 7946}
	}
	doCall := func(gi int, cl Call, wg *sync.WaitGroup) {
		defer wg.Done()
		if cl.DelayUs > 0 {
			time.Sleep(time.Duration(cl.DelayUs) * time.Microsecond)
		}
		t0 := c.Net.Now()
		var bound time.Duration = time.Millisecond
		desc := cl.Kind
		perr := vfx.Guard(func() error {
			switch cl.Kind {
			case "join":
				a, _ := peerAddr(cl.Arg)
				smu.Lock()
				userDialTimes = append(userDialTimes, c.Net.Now())
				smu.Unlock()
				_, _ = m.Join([]string{a})
				bound = 2*tcpTO + 50*time.Millisecond
			case "leave":
				smu.Lock()
				sd := shutdownReturned >= 0
				smu.Unlock()
				if sd {
					return nil // excluded ordering (documented to panic)
				}
				smu.Lock()
				afterOK := leaveOKAt >= 0
				smu.Unlock()
				l0 := c.Net.Now()
				err := m.Leave(time.Duration(cl.Arg) * time.Millisecond)
				desc = fmt.Sprintf("leave(%dms)=%v", cl.Arg, err)
				bound = time.Duration(cl.Arg)*time.Millisecond + time.Millisecond
				if afterOK {
					// idempotent: the departure has been announced (an earlier call returned nil); there is nothing left to do or to wait for
					if err != nil {
						return fmt.Errorf("Leave(%dms) called after an earlier Leave had returned nil returned %v", cl.Arg, err)
					}
					if took := c.Net.Now() - l0; took > time.Millisecond {
						return fmt.Errorf("Leave(%dms) called after an earlier Leave had returned nil took %v", cl.Arg, took)
					}
					smu.Lock()
					lateLabels = append(lateLabels, "leave-repeated-after-success")
					smu.Unlock()
				}
				if err == nil {
					smu.Lock()
					if leaveOKAt < 0 {
						leaveOKAt = c.Net.Now()
					}
					smu.Unlock()
				}
				if cl.Arg == 0 {
					// nobody to tell: nothing to wait for (10 s is far beyond any broadcast that might still be going out)
					bound = 10 * time.Second
					smu.Lock()
					lateLabels = append(lateLabels, "leave-without-timeout")
					smu.Unlock()
				}
				smu.Lock()
				if leftAt < 0 {
					leftAt = c.Net.Now()
				}
				smu.Unlock()
			case "shutdown":
				err := m.Shutdown()
				smu.Lock()
				if shutdownReturned < 0 {
					shutdownReturned = c.Net.Now()
				}
				smu.Unlock()
				if err != nil {
					return fmt.Errorf("Shutdown returned %v", err)
				}
			case "members":
				_ = m.Members()
			case "nummembers":
				_ = m.NumMembers()
			case "localnode":
				if n := m.LocalNode(); n == nil || n.Name != "n0" {
					return fmt.Errorf("LocalNode() = %v", n)
				}
			case "health":
				if h := m.GetHealthScore(); h < 0 || h > 1 {
					return fmt.Errorf("health score %d outside [0,1]", h)
				}
			case "pv":
				_ = m.ProtocolVersion()
			case "update":
				_ = m.UpdateNode(time.Duration(cl.Arg) * time.Millisecond)
				bound = time.Duration(cl.Arg)*time.Millisecond + time.Millisecond
				if cl.Arg == 0 {
					bound = 10 * time.Second
					smu.Lock()
					lateLabels = append(lateLabels, "update-without-timeout")
					smu.Unlock()
				}
			case "besteffort":
				_, n := peerAddr(cl.Arg)
				_ = m.SendBestEffort(n, []byte(userMarker+"be"))
			case "reliable":
				_, n := peerAddr(cl.Arg)
				smu.Lock()
				userDialTimes = append(userDialTimes, c.Net.Now())
				smu.Unlock()
				_ = m.SendReliable(n, []byte(userMarker+"rel"))
				bound = 2*tcpTO + 50*time.Millisecond
			case "ping":
				a, _ := peerAddr(cl.Arg)
				_, _ = m.Ping("ghost", &simAddr{a})
				bound = 150*time.Millisecond + time.Millisecond
			}
			return nil
		})
		dt := c.Net.Now() - t0
		logf("%v group %d %s took %v (stage %s)", t0, gi, desc, dt, stage)
		if perr != nil {
			setErr(fmt.Errorf("group %d: %s at stage %q: %v", gi, cl.Kind, stage, perr))
			return
		}
		if dt > bound {
			setErr(fmt.Errorf("group %d: %s at stage %q blocked for %v (bound %v)", gi, desc, stage, dt, bound))
		}
	}
	for gi, g := range pl.Groups {
		time.Sleep(time.Duration(g.AfterMs) * time.Millisecond)
		// stage bookkeeping for the labels
		smu.Lock()
		switch {
		case shutdownReturned >= 0:
			stage = "shutdown"
		case leftAt >= 0 && c.Net.Now()-leftAt > time.Duration(pl.GTDMs)*time.Millisecond+time.Duration(pl.Peers+2)*P*time.Millisecond:
			stage = "left-and-reaped"
		case leftAt >= 0:
			stage = "left"
		}
		smu.Unlock()
		var wg sync.WaitGroup
		for _, cl := range g.Calls {
			wg.Add(1)
			go doCall(gi, cl, &wg)
			labels[stage+"|"+cl.Kind] = true
		}
		// every call has a bound (at most 10 s for the calls without a timeout); a call that has not returned after a
		// minute of virtual time never will: while tickers keep running virtual time would advance for ever
		groupDone := make(chan struct{})
		go func() { wg.Wait(); close(groupDone) }()
		stuck := false
		select {
		case <-groupDone:
		case <-time.After(60 * time.Second):
			stuck = true
		}
		if stuck {
			var kinds []string
			for _, cl := range g.Calls {
				kinds = append(kinds, fmt.Sprintf("%s(%d)", cl.Kind, cl.Arg))
			}
			hmu.Lock()
			hcopy := append([]string(nil), hist...)
			hmu.Unlock()
			setErr(fmt.Errorf("group %d at stage %q: a call of %v has not returned after 60 s of virtual time (deadlock); history %v", gi, stage, kinds, hcopy))
			break
		}
		smu.Lock()
		for _, l := range lateLabels {
			labels[l] = true
		}
		smu.Unlock()
		if len(g.Calls) >= 2 || stage == "left-and-reaped" {
			res.NonTrivial = true
		}
	}
	// end of life
	if err := vfx.Guard(func() error { return m.Shutdown() }); err != nil {
		setErr(fmt.Errorf("final Shutdown: %v", err))
	}
	if err := vfx.Guard(func() error { return m.Shutdown() }); err != nil {
		setErr(fmt.Errorf("repeated Shutdown: %v", err))
	}
	smu.Lock()
	if shutdownReturned < 0 {
		shutdownReturned = c.Net.Now()
	}
	sdAt := shutdownReturned
	smu.Unlock()
	// all background activity ends within one awareness-scaled probe interval (TCPTimeout <= that)
	time.Sleep(2*P*time.Millisecond + 50*time.Millisecond)
	tapLen := len(c.Net.Events())
	pmu.Lock()
	peersDown = true
	var stopNow []*cluster.Node
	for _, nd := range peers {
		if !leaving[nd] {
			stopNow = append(stopNow, nd)
		}
	}
	pmu.Unlock()
	for _, nd := range stopNow {
		_ = nd.M.Shutdown()
	}
	time.Sleep(5 * time.Second)
	if tcpTO > 4*time.Second {
		time.Sleep(tcpTO) // exchanges bounded by TCPTimeout only (see below) must be gone when the bubble exits
	}
	if pl.Frozen {
		// the frozen member's handlers give up after 12 s (a stream whose tail was cut by the fault policy never ends)
		time.Sleep(13 * time.Second)
	}
	// nothing of the subject reached the network after Shutdown returned
	cd := wire.Codec{}
	for i, e := range c.Net.Events() {
		if e.Src != sub.Addr() || e.T <= sdAt {
			continue
		}
		switch e.Kind {
		case "pkt", "pkt-lost", "swrite", "dial":
			_ = i
			_ = tapLen
			setErr(fmt.Errorf("%s from the node at %v, after Shutdown returned at %v (%d bytes to %s)", e.Kind, e.T, sdAt, len(e.Data), e.Dst))
		case "pkt-after-shutdown":
			// handed to the already closed transport (so it reaches nothing). Background activity may
			// still do that while it winds down, i.e. for one awareness-scaled probe interval; later
			// only the harness's own post-shutdown API calls may
			if e.T <= sdAt+2*P*time.Millisecond {
				continue
			}
			info, err := cd.DecodePacket(e.Data)
			mine := false
			if err == nil {
				for _, l := range info.Leaves {
					if l.Type == wire.UserMsg && strings.HasPrefix(string(l.Body), userMarker) {
						mine = true
					}
					if pg, ok := l.V.(*wire.Ping); ok && pg.Node == "ghost" && pg.SourceNode == "n0" {
						mine = true
					}
				}
			}
			if !mine {
				setErr(fmt.Errorf("the node tried to send a packet at %v, after Shutdown returned at %v: %x", e.T, sdAt, e.Data[:min(len(e.Data), 24)]))
			}
		}
	}
	// streams of the subject: a TCP fallback ping belongs to its probe and is closed by the probe's deadline (one
	// awareness-scaled probe interval after the probe began, at most AwarenessMax = 2 intervals), whatever TCPTimeout
	// says. Other exchanges (push/pull, user streams) are bounded by TCPTimeout only: when that exceeds the scaled probe
	// interval and the peer stalls, they outlive Shutdown by up to TCPTimeout - the listed finding
	// C20-stream-outlives-shutdown; beyond TCPTimeout nothing may remain (the bubble must exit).
	type life struct {
		dial, closed time.Duration
		kind         string
		dst          string
		inbound      bool
	}
	conns := map[int]*life{}
	for _, e := range c.Net.Events() {
		switch e.Kind {
		case "dial":
			if e.Src == sub.Addr() || e.Dst == sub.Addr() {
				conns[e.Conn] = &life{dial: e.T, closed: -1, dst: e.Dst, inbound: e.Dst == sub.Addr()}
			}
		case "swrite":
			l := conns[e.Conn]
			if l == nil || l.kind != "" || (e.Src == sub.Addr()) == l.inbound {
				continue // only the dialer's first write names the exchange
			}
			l.kind = "other"
			if sm, err := cd.DecodeStream(e.Data); err == nil {
				switch sm.Type {
				case wire.PingMsg:
					l.kind = "ping"
				case wire.PushPullMsg:
					l.kind = "pushpull"
				case wire.UserMsg:
					l.kind = "user"
				}
			}
		case "sclose":
			if l := conns[e.Conn]; l != nil && l.closed < 0 && e.Src == sub.Addr() {
				l.closed = e.T
			}
		}
	}
	endT := c.Net.Now()
	outlived := 0
	for id, l := range conns {
		if l.kind == "ping" && !l.inbound {
			labels["tcp-ping-stream"] = true
			if (l.closed < 0 && endT-l.dial > 2*P*time.Millisecond) || l.closed-l.dial > 2*P*time.Millisecond {
				labels["tcp-ping-stalled"] = true
				setErr(fmt.Errorf("TCP fallback ping stream %d to %s opened at %v was still open %v later (closed at %v; probe interval %v, at most 2 intervals when scaled; TCPTimeout %v): the probe outlives its deadline", id, l.dst, l.dial, endT-l.dial, l.closed, P*time.Millisecond, tcpTO))
			}
			continue
		}
		// anything else still held by the node more than one scaled probe interval after Shutdown returned
		if l.closed < 0 || l.closed > sdAt+2*P*time.Millisecond {
			if l.dial > sdAt || l.inbound {
				// dials after Shutdown are reported above; an inbound connection may sit unaccepted in the closed
				// transport's backlog (the handler goroutines of accepted ones are covered by the bubble exit)
				continue
			}
			outlived++
			logf("stream %d (%s, inbound=%v) opened at %v still held at %v (closed %v), Shutdown returned at %v", id, l.kind, l.inbound, l.dial, sdAt+2*P*time.Millisecond, l.closed, sdAt)
			if l.closed >= 0 && l.closed-l.dial > tcpTO+50*time.Millisecond {
				setErr(fmt.Errorf("stream %d (%s) of the node stayed open for %v, beyond TCPTimeout %v", id, l.kind, l.closed-l.dial, tcpTO))
			}
		}
	}
	if outlived > 0 {
		labels["stream-outlives-shutdown"] = true
		if tcpTO <= 2*P*time.Millisecond {
			setErr(fmt.Errorf("%d stream exchange(s) of the node were still open one scaled probe interval after Shutdown returned although TCPTimeout is only %v (history above)", outlived, tcpTO))
		} else if vfx.IsKnown("C20-stream-outlives-shutdown") {
			res.Known = "C20-stream-outlives-shutdown"
		} else {
			setErr(fmt.Errorf("%d stream exchange(s) of the node were still open one scaled probe interval after Shutdown returned (bounded only by TCPTimeout %v)", outlived, tcpTO))
		}
	}
	// dials attempted on the closed transport after the wind-down period can only be the harness's own calls
	lateDials, lateUser := 0, 0
	for _, e := range c.Net.Events() {
		if e.Kind == "dial-after-shutdown" && e.Src == sub.Addr() && e.T > sdAt+2*P*time.Millisecond {
			lateDials++
		}
	}
	for _, t := range userDialTimes {
		if t >= sdAt+2*P*time.Millisecond-time.Second {
			lateUser++
		}
	}
	if lateDials > lateUser {
		setErr(fmt.Errorf("%d stream dials were attempted more than one scaled probe interval after Shutdown returned, the harness itself made at most %d", lateDials, lateUser))
	}
	res.Err = firstErr
	return done()
}

type simAddr struct{ s string }

func (a *simAddr) Network() string { return "udp" }
func (a *simAddr) String() string  { return a.s }

func TestLifecycle(t *testing.T) {
	theT = t
	vfx.Check(t, genPlan, runPlan)
}

// frozenPeer is a member whose process is stopped: the kernel still accepts connections, nothing is ever answered.
type frozenPeer struct{}

func (frozenPeer) OnPacket(*simnet.Endpoint, string, []byte) {}
func (frozenPeer) OnStream(_ *simnet.Endpoint, _ string, c *simnet.Conn) {
	_, _ = c.ReadAllFor(12 * time.Second)
	c.Close()
}
