package c20

import (
	"fmt"
	"testing"
	"testing/synctest"
	"time"

	"verif/harness/cluster"
	"verif/harness/puppet"
	"verif/harness/simnet"
	"verif/harness/vfx"
	"verif/harness/wire"
)

// One-case demonstration of the listed finding C20-stream-outlives-shutdown: a push/pull the node
// dialled towards a peer that accepts and never answers is still open one awareness-scaled probe
// interval after Shutdown returned, and goes away only at dial + TCPTimeout.
func TestKnownStreamOutlivesShutdown(t *testing.T) {
	if !vfx.IsKnown("C20-stream-outlives-shutdown") {
		t.Skip("not listed as known")
	}
	var what string
	gerr := vfx.Guard(func() error {
		synctest.Test(t, func(t *testing.T) {
			c := cluster.New(7)
			sub, err := c.Start(puppet.NodeConf{Name: "n0", IP: "10.0.0.1", Port: 7946, IndirectChecks: 0, ProbeIntervalMs: 500, ProbeTimeoutMs: 150,
				GossipIntervalMs: 100, PushPullMs: 1000, TCPTimeoutMs: 10000, AwarenessMax: 2, SuspicionMult: 6, DisableTcpPings: true})
			if err != nil {
				t.Fatal(err)
			}
			fz := c.Net.NewEndpoint("10.0.0.77", 7946, stallingPeer{})
			c.Net.SendFrom(fz.Addr(), sub.Addr(), wire.Encode(wire.AliveMsg, &wire.Alive{Incarnation: 1, Node: "frozen", Addr: []byte{10, 0, 0, 77}, Port: 7946, Vsn: []uint8{1, 5, 2, 0, 0, 0}}))
			// wait for the first push/pull dial
			var dialAt time.Duration = -1
			conn := 0
			for i := 0; i < 400 && dialAt < 0; i++ {
				time.Sleep(10 * time.Millisecond)
				for _, e := range c.Net.Events() {
					if e.Kind == "dial" && e.Src == sub.Addr() && e.Dst == fz.Addr() {
						dialAt, conn = e.T, e.Conn
					}
				}
			}
			if dialAt < 0 {
				t.Fatal("the node never started a push/pull with the frozen member")
			}
			time.Sleep(50 * time.Millisecond)
			_ = sub.M.Shutdown()
			sdAt := c.Net.Now()
			time.Sleep(1050 * time.Millisecond) // two probe intervals: the awareness-scaled maximum
			closedAt := func() time.Duration {
				for _, e := range c.Net.Events() {
					if e.Kind == "sclose" && e.Conn == conn && e.Src == sub.Addr() {
						return e.T
					}
				}
				return -1
			}
			stillOpen := closedAt() < 0
			time.Sleep(11 * time.Second)
			cl := closedAt()
			if stillOpen {
				what = fmt.Sprintf("push/pull dialled at %v towards a stalled peer, Shutdown returned at %v: stream still open %v later, closed at %v (TCPTimeout 10s, probe interval 500ms)", dialAt, sdAt, 1050*time.Millisecond, cl)
			}
			if cl < 0 {
				t.Errorf("the stream was never closed")
			}
		})
		return nil
	})
	if gerr != nil {
		t.Fatalf("%v", gerr)
	}
	if what != "" {
		vfx.ReportKnown(t.Name(), "C20-stream-outlives-shutdown", what)
	} else {
		vfx.Note(t.Name(), "known finding C20-stream-outlives-shutdown did not reproduce on this tree")
	}
}

// stallingPeer answers pings but never answers on a stream.
type stallingPeer struct{}

func (stallingPeer) OnPacket(ep *simnet.Endpoint, from string, b []byte) {
	info, err := wire.Codec{}.DecodePacket(b)
	if err != nil {
		return
	}
	for _, l := range info.Leaves {
		if pg, ok := l.V.(*wire.Ping); ok {
			ep.Send(from, wire.Encode(wire.AckRespMsg, &wire.Ack{SeqNo: pg.SeqNo}))
		}
	}
}
func (stallingPeer) OnStream(_ *simnet.Endpoint, _ string, c *simnet.Conn) {
	_, _ = c.ReadAllFor(12 * time.Second)
	c.Close()
}
