// C11 — piggyback packing is lossless and stays within the packet budget.
// One real sender node; every packet it emits is decoded by the independent
// wire mirror and compared with what its delegate handed out.
package c11

import (
	"fmt"
	"sort"
	"strings"
	"testing"
	"testing/synctest"
	"time"

	"pgregory.net/rapid"

	"verif/harness/puppet"
	"verif/harness/vfx"
	"verif/harness/wire"
)

func TestMain(m *testing.M) { vfx.Main(m) }

type Batch struct {
	AtMs    int
	Kind    string // tiny | mixed | maximal | members
	Count   int
	Trigger string // gossip | ping | probe
}

type Plan struct {
	Seed       uint64
	UDPBuf     int
	LabelLen   int
	EncVsn     int // -1 none, 0, 1
	NoCompress bool
	PeerPMax   uint8
	Batches    []Batch
}

func genPlan(t *rapid.T) Plan {
	p := Plan{Seed: rapid.Uint64Range(1, 1<<40).Draw(t, "seed")}
	p.UDPBuf = rapid.OneOf(rapid.SampledFrom([]int{512, 1400, 1400, 9000, 65000}), rapid.IntRange(400, 3000)).Draw(t, "udpbuf")
	p.LabelLen = rapid.SampledFrom([]int{0, 0, 5, 255}).Draw(t, "labellen")
	if p.LabelLen == 255 && p.UDPBuf < 700 {
		p.LabelLen = 5
	}
	p.EncVsn = rapid.SampledFrom([]int{-1, -1, 0, 1}).Draw(t, "enc")
	p.NoCompress = rapid.IntRange(0, 2).Draw(t, "nocomp") != 0
	if p.EncVsn == 0 {
		// encryption version 0 pads to whole blocks: packet sizes at which the padding is a full block (or a single
		// byte) are where a budget that is off by one shows
		if a := rapid.SampledFrom([]int{0, 43, 44, 45, 46}).Draw(t, "align"); a > 0 {
			lo := 0
			if p.LabelLen > 0 {
				lo = 2 + p.LabelLen
			}
			p.UDPBuf -= (p.UDPBuf - lo - a) % 16
		}
	}
	p.PeerPMax = uint8(rapid.SampledFrom([]int{2, 3, 4, 5, 5}).Draw(t, "pmax"))
	p.Batches = rapid.SliceOfN(rapid.Custom(func(t *rapid.T) Batch {
		return Batch{AtMs: rapid.IntRange(0, 3000).Draw(t, "at"), Kind: rapid.SampledFrom([]string{"tiny", "tiny", "mixed", "maximal", "members", "exact", "exact"}).Draw(t, "kind"),
			Count: rapid.SampledFrom([]int{1, 3, 40, 253, 254, 255, 256, 260, 400, 509, 510, 511, 700}).Draw(t, "count"), Trigger: rapid.SampledFrom([]string{"gossip", "ping", "ping", "probe"}).Draw(t, "trigger")}
	}), 1, 5).Draw(t, "batches")
	sort.SliceStable(p.Batches, func(i, j int) bool { return p.Batches[i].AtMs < p.Batches[j].AtMs })
	return p
}

var theT *testing.T

func runPlan(pl Plan) (res vfx.Result) {
	synctest.Test(theT, func(t *testing.T) { res = run(pl) })
	return
}

func run(pl Plan) (res vfx.Result) {
	labels := map[string]bool{}
	done := func() vfx.Result {
		for l := range labels {
			res.Labels = append(res.Labels, l)
		}
		sort.Strings(res.Labels)
		return res
	}
	fail := func(f string, a ...any) vfx.Result { res.Err = fmt.Errorf(f, a...); return done() }
	conf := puppet.NodeConf{Name: "n0", IP: "10.0.0.1", Port: 7946, UDPBufferSize: pl.UDPBuf, Label: strings.Repeat("L", pl.LabelLen), NoCompress: pl.NoCompress,
		IndirectChecks: 1, GossipIntervalMs: 200, GossipNodes: 2, ProbeIntervalMs: 700, ProbeTimeoutMs: 200, RetransmitMult: 1}
	switch pl.EncVsn {
	case 0:
		conf.Keys = [][]byte{[]byte("0123456789abcdef")}
		conf.ProtocolVersion = 1
	case 1:
		conf.Keys = [][]byte{[]byte("0123456789abcdef")}
	}
	p, err := puppet.New(pl.Seed, conf)
	if err != nil {
		return fail("create: %v", err)
	}
	defer func() { p.Shutdown(); time.Sleep(20 * time.Second) }()
	vsn := []uint8{1, pl.PeerPMax, 2, 0, 0, 0}
	peer := p.AddPeer("p1", "10.0.0.9", 7946, vsn)
	p.Inject(peer.Addr(), [][]byte{puppet.Claim{Kind: "alive", Node: "p1", Inc: 1, Addr: peer.IPBytes(), Port: 7946, Vsn: vsn}.Leaf()}, puppet.Carrier{})
	// room for a user message inside one packet, computed pessimistically from the configuration
	room := pl.UDPBuf - 2 - 2 - 1 - 5 - 60
	if pl.LabelLen > 0 {
		room -= 2 + pl.LabelLen
	}
	if pl.EncVsn >= 0 {
		room -= 45
	}
	if room < 1 {
		room = 1
	}
	var handedTotal int
	serial := 0
	mk := func(n int) []byte {
		b := make([]byte, n)
		serial++
		for i := range b {
			b[i] = byte(serial>>uint(8*(i%3))) ^ byte(i)
		}
		return b
	}
	start := p.Net.Now()
	for bi, b := range pl.Batches {
		if w := start + time.Duration(b.AtMs)*time.Millisecond - p.Net.Now(); w > 0 {
			time.Sleep(w)
		}
		switch b.Kind {
		case "tiny":
			for i := 0; i < b.Count; i++ {
				p.Rec.QueueUser(mk(i % 3))
			}
			handedTotal += b.Count
		case "mixed":
			for i := 0; i < b.Count; i++ {
				n := []int{0, 1, 2, 17, 100, room / 2}[i%6]
				p.Rec.QueueUser(mk(n))
			}
			handedTotal += b.Count
		case "exact":
			// the delegate uses whatever limit it is offered to the last byte, a few times in a row
			n := b.Count%5 + 1
			p.Rec.FillExact(n)
			handedTotal += n
		case "maximal":
			cnt := b.Count
			if cnt > 3 {
				cnt = 3
			}
			for i := 0; i < cnt; i++ {
				p.Rec.QueueUser(mk(room - i))
			}
			handedTotal += cnt
		case "members":
			// many membership broadcasts with metadata of 0..512 bytes
			var parts [][]byte
			cnt := b.Count
			if cnt > 60 {
				cnt = 60
			}
			for i := 0; i < cnt; i++ {
				meta := make([]byte, []int{0, 10, 200, 512}[i%4])
				if len(meta)+150 > pl.UDPBuf {
					meta = meta[:0]
				}
				parts = append(parts, puppet.Claim{Kind: "alive", Node: fmt.Sprintf("m%d-%d", bi, i), Inc: 1, Addr: []byte{10, 1, byte(bi), byte(i)}, Port: 7946, Meta: meta, Vsn: []uint8{1, 5, 2, 0, 0, 0}}.Leaf())
			}
			for i := 0; i < len(parts); i += 10 {
				p.Inject(peer.Addr(), parts[i:min(i+10, len(parts))], puppet.Carrier{Kind: "compound"})
			}
		}
		labels["batch:"+b.Kind] = true
		switch b.Trigger {
		case "ping":
			// an inbound ping: the ack piggybacks whatever is queued
			p.Inject(peer.Addr(), [][]byte{wire.Encode(wire.PingMsg, &wire.Ping{SeqNo: uint32(9000 + bi), Node: "n0", SourceAddr: peer.IPBytes(), SourcePort: 7946, SourceNode: "p1"})}, puppet.Carrier{})
			labels["trigger:ping"] = true
		case "probe":
			time.Sleep(750 * time.Millisecond) // the next outbound probe piggybacks
			labels["trigger:probe"] = true
		default:
			time.Sleep(250 * time.Millisecond)
			labels["trigger:gossip"] = true
		}
	}
	// drain
	// (small packets and thousands of queued messages take long: wait as long as the backlog keeps shrinking)
	lastN, lastChange := p.Rec.PendingUser(), p.Net.Now()
	// (membership broadcasts go first: hundreds of members turning suspect and dead can starve the user queue for minutes)
	for p.Rec.PendingUser() > 0 && p.Net.Now()-lastChange < 300*time.Second {
		time.Sleep(200 * time.Millisecond)
		if n := p.Rec.PendingUser(); n != lastN {
			lastN, lastChange = n, p.Net.Now()
		}
	}
	time.Sleep(2 * time.Second)
	p.Settle()
	if n := p.Rec.PendingUser(); n > 0 {
		return fail("%d user broadcasts were never requested from the delegate", n)
	}
	// ---- oracle ----
	out, _, err := p.OutboundSince(0)
	if err != nil {
		return fail("independent decoder: %v", err)
	}
	want := map[string]int{}
	for _, m := range p.Rec.HandedOut {
		want[string(m)]++
	}
	got := map[string]int{}
	type pk struct {
		t    time.Duration
		size int
	}
	perPacket := map[*wire.PacketInfo]int{}
	maxParts := 0
	for _, o := range out {
		if o.Dst != peer.Addr() {
			// gossip to the injected member names goes to addresses nobody listens on; it is decoded all the same
		}
		perPacket[o.Info]++
		if o.Leaf.Type == wire.UserMsg {
			got[string(o.Leaf.Body)]++
		}
		if o.Info.Trunc > 0 {
			return fail("packet of %d bytes to %s has %d truncated compound parts", o.Size, o.Dst, o.Info.Trunc)
		}
		hasBroadcast := o.Leaf.Type == wire.UserMsg || o.Leaf.Type == wire.AliveMsg || o.Leaf.Type == wire.SuspectMsg || o.Leaf.Type == wire.DeadMsg
		if hasBroadcast && o.Size > pl.UDPBuf {
			return fail("a packet assembled from queued broadcasts is %d bytes on the wire, UDPBufferSize is %d (label %d bytes, encryption version %d, crc %v, compression %v, %d parts)",
				o.Size, pl.UDPBuf, pl.LabelLen, pl.EncVsn, o.Info.CRC, !pl.NoCompress, perPacket[o.Info])
		}
		if hasBroadcast && o.Size > pl.UDPBuf-16 {
			labels["within-16-bytes-of-limit"] = true
		}
		if o.Info.CRC {
			labels["crc"] = true
		}
	}
	for _, n := range perPacket {
		if n > maxParts {
			maxParts = n
		}
	}
	for k, w := range want {
		if got[k] != w {
			return fail("the delegate handed out a %d-byte user message %d time(s); the packets on the wire contain it %d time(s) (handed out %d messages in total, %d on the wire, largest packet has %d parts)",
				len(k), w, got[k], len(p.Rec.HandedOut), total(got), maxParts)
		}
	}
	for k, g := range got {
		if want[k] == 0 {
			return fail("a %d-byte user message is on the wire %d time(s) but was never handed out", len(k), g)
		}
	}
	// more than 255 broadcasts handed out for one packing operation (one virtual instant)?
	run, best := 0, 0
	for i := range p.Rec.HandedAt {
		if i > 0 && p.Rec.HandedAt[i] == p.Rec.HandedAt[i-1] {
			run++
		} else {
			run = 1
		}
		if run > best {
			best = run
		}
	}
	if best > 255 {
		labels["more-than-255-parts"] = true
	}
	if best == 255 || best == 256 || best == 254 {
		labels["exactly-around-255-parts"] = true
	}
	if maxParts >= 2 {
		res.NonTrivial = true
	}
	labels[fmt.Sprintf("enc=%d", pl.EncVsn)] = true
	if pl.LabelLen > 0 {
		labels["label"] = true
	}
	res.Sub = map[string]int64{"packets": int64(len(perPacket)), "user_messages": int64(len(p.Rec.HandedOut)), "max_parts": int64(maxParts)}
	_ = handedTotal
	return done()
}

func total(m map[string]int) int {
	n := 0
	for _, v := range m {
		n += v
	}
	return n
}

func TestPiggybackPacking(t *testing.T) {
	theT = t
	vfx.Check(t, genPlan, runPlan)
}
