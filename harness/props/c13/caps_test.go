package c13

import (
	"bytes"
	"encoding/binary"
	"fmt"
	"testing"
	"testing/synctest"
	"time"

	"pgregory.net/rapid"

	"verif/harness/hostile"
	"verif/harness/puppet"
	"verif/harness/vfx"
	"verif/harness/wire"
)

// ---- declared sizes beyond the caps -------------------------------------------

type CapPlan struct {
	Kind    string // nodes | userstate | usermsg | enclen
	Value   int64
	Encrypt bool
	Label   string
	Feed    int // KiB the sender keeps writing after the declaration
}

const (
	capBytes = 20 * 1024 * 1024
	capNodes = 1024 * 1024
)

func genCapPlan(t *rapid.T) CapPlan {
	p := CapPlan{Kind: rapid.SampledFrom([]string{"nodes", "userstate", "usermsg", "enclen"}).Draw(t, "kind"), Encrypt: rapid.Bool().Draw(t, "enc"),
		Label: rapid.SampledFrom([]string{"", "lbl"}).Draw(t, "label"), Feed: rapid.SampledFrom([]int{0, 64, 1024}).Draw(t, "feed")}
	switch p.Kind {
	case "nodes":
		p.Value = rapid.SampledFrom([]int64{capNodes + 1, 1 << 24, 1<<31 - 1, 1 << 40, -1, -1 << 40}).Draw(t, "v")
	case "enclen":
		p.Value = rapid.SampledFrom([]int64{capBytes + 1, 1<<31 - 1, 1 << 31, 1<<32 - 1}).Draw(t, "v")
		p.Encrypt = true
	default:
		p.Value = rapid.SampledFrom([]int64{capBytes + 1, 1 << 30, 1<<31 - 1, 1 << 40, 1<<62 + 5, -1, -capBytes}).Draw(t, "v")
	}
	return p
}

func runCap(pl CapPlan) (res vfx.Result) {
	synctest.Test(theT, func(t *testing.T) { res = runCapIn(pl) })
	return
}

func runCapIn(pl CapPlan) (res vfx.Result) {
	fail := func(f string, a ...any) vfx.Result { res.Err = fmt.Errorf(f, a...); return res }
	w, err := hostile.NewWorld(1, hostile.Cfg{Label: pl.Label, Encrypt: pl.Encrypt})
	if err != nil {
		return fail("world: %v", err)
	}
	defer w.Close()
	p := w.P
	var raw []byte
	row := wire.PushNodeState{Name: "evil", Addr: []byte{10, 0, 0, 99}, Port: 7946, Incarnation: 1, State: 0, Vsn: hostile.Vsn}
	switch pl.Kind {
	case "nodes":
		raw = w.SealDefault(wire.PushPullDeclared(wire.PushPullHeader{Nodes: int(pl.Value), UserStateLen: 0, Join: true}, []wire.PushNodeState{row}, nil), true)
	case "userstate":
		raw = w.SealDefault(wire.PushPullDeclared(wire.PushPullHeader{Nodes: 1, UserStateLen: int(pl.Value), Join: true}, []wire.PushNodeState{row}, []byte("begin")), true)
	case "usermsg":
		raw = w.SealDefault(wire.UserStreamDeclared(int(pl.Value), []byte("begin")), true)
	case "enclen":
		hdr := make([]byte, 5)
		hdr[0] = wire.EncryptMsg
		binary.BigEndian.PutUint32(hdr[1:], uint32(pl.Value))
		raw = wire.LabelWrap(append(hdr, bytes.Repeat([]byte{1}, 64)...), pl.Label)
	}
	evIdx := p.Rec.Len()
	before, err := p.Dump()
	if err != nil {
		return fail("%v", err)
	}
	c, err := w.Att.Dial(p.Addr(), time.Second)
	if err != nil {
		return fail("dial: %v", err)
	}
	defer c.Close()
	_, _ = c.Write(raw)
	sent := len(raw)
	chunk := bytes.Repeat([]byte{0x41}, 64*1024)
	for fed := 0; fed < pl.Feed; fed += 64 {
		if _, err := c.Write(chunk); err != nil {
			break
		}
		sent += len(chunk)
		time.Sleep(time.Millisecond)
		if c.PeerClosed() {
			break
		}
	}
	deadline := time.Now().Add(2500 * time.Millisecond)
	for time.Now().Before(deadline) && !c.PeerClosed() {
		time.Sleep(20 * time.Millisecond)
	}
	p.Settle()
	if !c.PeerClosed() {
		return fail("%+v: the node kept the stream open past its TCP timeout", pl)
	}
	// refused before the data is buffered: at most the declaration plus one read buffer was consumed.
	// (An encrypted frame must be read completely before its inner declaration is visible.)
	limit := len(raw) + 2*4096
	if got := c.Consumed(); got > limit {
		return fail("%+v: the node read %d bytes of the stream (declaration is %d bytes, %d were sent) before refusing", pl, got, len(raw), sent)
	}
	for _, e := range p.Rec.Since(evIdx) {
		if e.Kind == "msg" || e.Kind == "merge-remote" || e.Kind == "join" || e.Kind == "notify-merge" {
			return fail("%+v: over-cap declaration was processed: %v", pl, e)
		}
	}
	after, err := p.Dump()
	if err != nil {
		return fail("%+v: node no longer serves streams: %v", pl, err)
	}
	if len(after) != len(before) {
		return fail("%+v: membership changed: %v", pl, after)
	}
	res.NonTrivial = true
	res.Labels = []string{"cap:" + pl.Kind, fmt.Sprintf("enc=%v", pl.Encrypt)}
	return res
}

func TestOversizeDeclarations(t *testing.T) {
	theT = t
	vfx.Check(t, genCapPlan, runCap)
}

// ---- decompression bomb -----------------------------------------------------------

func TestDecompressionBomb(t *testing.T) {
	theT = t
	if !vfx.Thorough() && testing.Short() {
		t.Skip()
	}
	zeros := make([]byte, 40*1024*1024+4096+1)
	zeros[0] = wire.UserMsg // if it were accepted the delegate would see a 40 MiB user message
	bomb := wire.CompressWrap(zeros)
	t.Logf("bomb: %d bytes compressed", len(bomb))
	for _, stream := range []bool{false, true} {
		for _, enc := range []bool{false, true} {
			pl := map[string]any{"bomb": len(bomb), "stream": stream, "encrypt": enc}
			vfx.Journal(t.Name(), pl)
			var r vfx.Result
			synctest.Test(t, func(t *testing.T) {
				w, err := hostile.NewWorld(1, hostile.Cfg{Encrypt: enc})
				if err != nil {
					r.Err = err
					return
				}
				defer w.Close()
				b := bomb
				if stream {
					// on a stream the frame is compress(userMsg header + payload): build a real user stream message
					b = wire.CompressWrap(wire.UserStreamDeclared(len(zeros), zeros))
				}
				o, err := w.Deliver(w.SealDefault(b, stream), stream)
				if err != nil {
					r.Err = fmt.Errorf("node unusable after the bomb: %v", err)
					return
				}
				if o.Events != "" {
					r.Err = fmt.Errorf("a message decompressing to %d bytes (cap 40 MiB) was processed: %d bytes of events", len(zeros), len(o.Events))
				}
			})
			r.NonTrivial = true
			r.Key = fmt.Sprint(pl)
			vfx.CheckCase(t, pl, r)
		}
	}
}

// ---- concurrent push/pull cap --------------------------------------------------------

type ConcPlan struct {
	Stalled int
}

func runConc(pl ConcPlan) (res vfx.Result) {
	synctest.Test(theT, func(t *testing.T) { res = runConcIn(pl) })
	return
}

func runConcIn(pl ConcPlan) (res vfx.Result) {
	fail := func(f string, a ...any) vfx.Result { res.Err = fmt.Errorf(f, a...); return res }
	w, err := hostile.NewWorld(1, hostile.Cfg{})
	if err != nil {
		return fail("world: %v", err)
	}
	defer w.Close()
	p := w.P
	// a push/pull that declares one node but never sends it: the handler blocks reading
	stalled := wire.PushPullDeclared(wire.PushPullHeader{Nodes: 1, Join: false}, nil, nil)
	var conns []interface{ Close() error }
	for i := 0; i < pl.Stalled; i++ {
		c, err := w.Att.Dial(p.Addr(), time.Second)
		if err != nil {
			return fail("dial %d: %v", i, err)
		}
		_, _ = c.Write(stalled)
		conns = append(conns, c)
	}
	p.Settle()
	// a complete, valid push/pull while the others are pending
	c, err := w.Att.Dial(p.Addr(), time.Second)
	if err != nil {
		return fail("dial: %v", err)
	}
	_, _ = c.Write(wire.PushPull(false, nil, nil))
	reply, _ := c.ReadAllFor(500 * time.Millisecond)
	c.Close()
	served := len(reply) > 0
	switch {
	case pl.Stalled >= 128 && served:
		return fail("with %d push/pull exchanges pending (cap 128) another one was still served", pl.Stalled)
	case pl.Stalled <= 126 && !served:
		return fail("with only %d push/pull exchanges pending a valid one was refused", pl.Stalled)
	}
	// after the TCP timeout the stalled ones are gone and service resumes
	time.Sleep(2500 * time.Millisecond)
	if _, err := p.Dump(); err != nil {
		return fail("after the stalled exchanges timed out the node still refuses push/pull: %v", err)
	}
	for _, cn := range conns {
		cn.Close()
	}
	res.NonTrivial = pl.Stalled >= 100
	res.Labels = []string{fmt.Sprintf("served=%v", served)}
	return res
}

func TestConcurrentPushPullCap(t *testing.T) {
	theT = t
	vfx.Check(t, func(t *rapid.T) ConcPlan {
		return ConcPlan{Stalled: rapid.SampledFrom([]int{0, 50, 120, 126, 127, 128, 129, 140, 300}).Draw(t, "stalled")}
	}, runConc)
}

// ---- hand-off queue depth ---------------------------------------------------------------

type FloodPlan struct {
	Depth int
	Flood int
	Alive int
}

func runFlood(pl FloodPlan) (res vfx.Result) {
	synctest.Test(theT, func(t *testing.T) { res = runFloodIn(pl) })
	return
}

func runFloodIn(pl FloodPlan) (res vfx.Result) {
	fail := func(f string, a ...any) vfx.Result { res.Err = fmt.Errorf(f, a...); return res }
	conf := puppet.NodeConf{Name: "n0", IP: "10.0.0.1", Port: 7946, HandoffDepth: pl.Depth, GossipIntervalMs: -1, ProbeIntervalMs: 3600000}
	p, err := puppet.New(1, conf)
	if err != nil {
		return fail("create: %v", err)
	}
	defer func() { p.Shutdown(); time.Sleep(20 * time.Second) }()
	block := make(chan struct{})
	p.Rec.BlockMsg = block
	src := "10.0.0.66:7946"
	// the first message occupies the handler
	p.InjectRaw(src, p.Outer(append([]byte{wire.UserMsg}, []byte("first")...)))
	for i := 0; i < pl.Flood; i++ {
		p.Net.SendFrom(src, p.Addr(), p.Outer(append([]byte{wire.UserMsg}, []byte(fmt.Sprintf("flood-%d", i))...)))
	}
	for i := 0; i < pl.Alive; i++ {
		p.Net.SendFrom(src, p.Addr(), p.Outer(puppet.Claim{Kind: "alive", Node: fmt.Sprintf("f%d", i), Inc: 1, Addr: []byte{10, 0, 1, byte(i)}, Port: 7946, Vsn: hostile.Vsn}.Leaf()))
	}
	p.Settle()
	close(block)
	p.Rec.BlockMsg = nil
	p.Settle()
	time.Sleep(100 * time.Millisecond)
	p.Settle()
	msgs := 0
	for _, e := range p.Rec.Events() {
		if e.Kind == "msg" {
			msgs++
		}
	}
	if msgs > pl.Depth+1 {
		return fail("hand-off queue depth %d: %d user messages were delivered after the handler was released (1 in flight + at most %d queued)", pl.Depth, msgs, pl.Depth)
	}
	if n := p.M.NumMembers() - 1; n > pl.Depth {
		return fail("hand-off queue depth %d: %d queued alive messages were processed", pl.Depth, n)
	}
	res.NonTrivial = pl.Flood > pl.Depth || pl.Alive > pl.Depth
	res.Labels = []string{fmt.Sprintf("delivered=%d/%d", msgs, pl.Flood+1)}
	return res
}

func TestHandoffQueueDepth(t *testing.T) {
	theT = t
	vfx.Check(t, func(t *rapid.T) FloodPlan {
		return FloodPlan{Depth: rapid.SampledFrom([]int{1, 4, 16, 64}).Draw(t, "depth"), Flood: rapid.SampledFrom([]int{0, 3, 17, 100, 300}).Draw(t, "flood"),
			Alive: rapid.SampledFrom([]int{0, 5, 70}).Draw(t, "alive")}
	}, runFlood)
}

// ---- replies replayed against a request in flight ------------------------------------------
//
// The sequence number of a probe is visible to whoever receives the ping or an indirect-ping request. Any number of
// copies of a genuine reply (nacks above all: they do not complete the probe) may arrive while the probe is in
// flight; the node keeps serving its listeners whatever their number.

type ReplayPlan struct {
	Helpers int
	Nacks   int // copies of nack{seq of the probe in flight}
	Acks    int // copies of ack{seq} sent afterwards
	Wrong   int // acks/nacks with other sequence numbers mixed in
	AfterMs int // when the flood starts, relative to the ping
}

func runReplay(pl ReplayPlan) (res vfx.Result) {
	synctest.Test(theT, func(t *testing.T) { res = runReplayIn(pl) })
	return
}

func runReplayIn(pl ReplayPlan) (res vfx.Result) {
	fail := func(f string, a ...any) vfx.Result { res.Err = fmt.Errorf(f, a...); return res }
	conf := puppet.NodeConf{Name: "n0", IP: "10.0.0.1", Port: 7946, IndirectChecks: pl.Helpers, ProbeIntervalMs: 1000, ProbeTimeoutMs: 300, GossipIntervalMs: -1, DisableTcpPings: true, SuspicionMult: 30}
	p, err := puppet.New(1, conf)
	if err != nil {
		return fail("create: %v", err)
	}
	defer func() { p.Shutdown(); time.Sleep(20 * time.Second) }()
	vsn := []uint8{1, 5, 2, 0, 0, 0}
	var parts [][]byte
	for i := 0; i < pl.Helpers; i++ {
		h := p.AddPeer(fmt.Sprintf("h%d", i), fmt.Sprintf("10.0.0.%d", 20+i), 7946, vsn)
		h.Relay = false
		h.OnLeaf = func(string, wire.Leaf) bool { return false }
		parts = append(parts, puppet.Claim{Kind: "alive", Node: h.Name, Inc: 1, Addr: h.IPBytes(), Port: 7946, Vsn: vsn}.Leaf())
	}
	x := p.AddPeer("x", "10.0.0.50", 7946, vsn)
	x.AckPings = false
	parts = append(parts, puppet.Claim{Kind: "alive", Node: "x", Inc: 1, Addr: x.IPBytes(), Port: 7946, Vsn: vsn}.Leaf())
	att := "10.0.0.66:7946"
	flooded := make(chan uint32, 1)
	x.OnLeaf = func(from string, l wire.Leaf) bool {
		pg, ok := l.V.(*wire.Ping)
		if !ok || pg.Node != "x" {
			return true
		}
		select {
		case flooded <- pg.SeqNo:
		default:
			return true
		}
		seq := pg.SeqNo
		time.AfterFunc(time.Duration(pl.AfterMs)*time.Millisecond, func() {
			for i := 0; i < pl.Nacks; i++ {
				p.Net.SendFrom(att, p.Addr(), p.Outer(wire.Encode(wire.NackRespMsg, &wire.Nack{SeqNo: seq})))
				if i < pl.Wrong {
					p.Net.SendFrom(att, p.Addr(), p.Outer(wire.Encode(wire.NackRespMsg, &wire.Nack{SeqNo: seq + 77})))
					p.Net.SendFrom(att, p.Addr(), p.Outer(wire.Encode(wire.AckRespMsg, &wire.Ack{SeqNo: seq + 78})))
				}
			}
			for i := 0; i < pl.Acks; i++ {
				p.Net.SendFrom(att, p.Addr(), p.Outer(wire.Encode(wire.AckRespMsg, &wire.Ack{SeqNo: seq})))
			}
		})
		return true
	}
	p.Inject("10.0.0.98:7946", parts, puppet.Carrier{Kind: "compound"})
	// wait for the first probe of x and let the flood play out
	for i := 0; i < 100 && len(flooded) == 0; i++ {
		time.Sleep(100 * time.Millisecond)
	}
	if len(flooded) == 0 {
		return fail("the node never probed x")
	}
	time.Sleep(2500 * time.Millisecond)
	p.Settle()
	// the packet listener still serves: a fresh ping is answered
	tap := p.TapLen()
	p.Net.SendFrom(att, p.Addr(), p.Outer(wire.Encode(wire.PingMsg, &wire.Ping{SeqNo: 424242, Node: "n0", SourceAddr: []byte{10, 0, 0, 66}, SourcePort: 7946, SourceNode: "att"})))
	time.Sleep(50 * time.Millisecond)
	p.Settle()
	out, _, err := p.OutboundSince(tap)
	if err != nil {
		return fail("%v", err)
	}
	acked := false
	for _, o := range out {
		if a, ok := o.Leaf.V.(*wire.Ack); ok && a.SeqNo == 424242 {
			acked = true
		}
	}
	if !acked {
		return fail("after %d copies of the nack (and %d of the ack) for the probe in flight the node no longer answers a ping: its packet listener is stuck", pl.Nacks, pl.Acks)
	}
	if _, err := p.Dump(); err != nil {
		return fail("after the replay flood the node no longer serves a state exchange: %v", err)
	}
	res.NonTrivial = pl.Nacks > pl.Helpers+1 || pl.Acks > pl.Helpers+1
	res.Labels = []string{fmt.Sprintf("nacks>%d", pl.Helpers+1)}
	return res
}

func TestReplayFlood(t *testing.T) {
	theT = t
	vfx.Check(t, func(t *rapid.T) ReplayPlan {
		return ReplayPlan{Helpers: rapid.IntRange(0, 3).Draw(t, "helpers"), Nacks: rapid.SampledFrom([]int{0, 1, 2, 4, 5, 6, 20, 200}).Draw(t, "nacks"),
			Acks: rapid.SampledFrom([]int{0, 1, 2, 5, 50}).Draw(t, "acks"), Wrong: rapid.SampledFrom([]int{0, 3}).Draw(t, "wrong"),
			AfterMs: rapid.SampledFrom([]int{1, 100, 350, 900}).Draw(t, "after")}
	}, runReplay)
}

// ---- exchanges cut in the middle must not accumulate ----------------------------------------

type CutPlan struct {
	Cuts  int
	Where int // 0: after the type byte; 1: inside the header; 2: after the header, before the declared rows; 3: the reply is never read (closed at once after a complete request)
}

func runCut(pl CutPlan) (res vfx.Result) {
	synctest.Test(theT, func(t *testing.T) { res = runCutIn(pl) })
	return
}

// Whatever accounting a node keeps per inbound exchange (the cap on concurrent push/pulls is one), an exchange that
// ends in an error must give it back: after any number of exchanges cut in the middle, one after the other, an honest
// exchange is served as before.
func runCutIn(pl CutPlan) (res vfx.Result) {
	fail := func(f string, a ...any) vfx.Result { res.Err = fmt.Errorf(f, a...); return res }
	w, err := hostile.NewWorld(1, hostile.Cfg{})
	if err != nil {
		return fail("world: %v", err)
	}
	defer w.Close()
	p := w.P
	full := wire.PushPullDeclared(wire.PushPullHeader{Nodes: 1, Join: false}, nil, nil)
	for i := 0; i < pl.Cuts; i++ {
		c, err := w.Att.Dial(p.Addr(), time.Second)
		if err != nil {
			return fail("dial %d: %v", i, err)
		}
		switch pl.Where {
		case 0:
			_, _ = c.Write(full[:1])
		case 1:
			_, _ = c.Write(full[:3])
		case 2:
			_, _ = c.Write(full)
		default:
			_, _ = c.Write(wire.PushPull(false, nil, nil))
		}
		c.Close()
		if i%16 == 15 {
			p.Settle()
		}
	}
	p.Settle()
	time.Sleep(50 * time.Millisecond)
	if _, err := p.Dump(); err != nil {
		return fail("after %d push/pull exchanges that were cut (mode %d) the node refuses an honest one: %v", pl.Cuts, pl.Where, err)
	}
	res.NonTrivial = pl.Cuts >= 128
	res.Labels = []string{fmt.Sprintf("cut-mode-%d", pl.Where)}
	return res
}

func TestCutExchangesLeaveNothing(t *testing.T) {
	theT = t
	vfx.Check(t, func(t *rapid.T) CutPlan {
		return CutPlan{Cuts: rapid.SampledFrom([]int{1, 127, 128, 129, 200, 300}).Draw(t, "cuts"), Where: rapid.IntRange(0, 3).Draw(t, "where")}
	}, runCut)
}
