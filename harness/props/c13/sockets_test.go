package c13

import (
	"bytes"
	"fmt"
	"math/rand"
	"net"
	"strings"
	"sync"
	"testing"
	"time"

	"pgregory.net/rapid"

	"verif/harness/puppet"
	"verif/harness/realnet"
	"verif/harness/vfx"
)

// Hostile bytes over real loopback sockets: the simulated transport replaces net_transport.go (the UDP read loop, the
// TCP accept loop, the hand-over channels), so the transport-level half of "never crash, never block a listener, never
// leak a goroutine or connection" is checked here against memberlist's own NetTransport. One real node is the target,
// a second real node (joined to it) is the witness. The barrage: datagrams of 0, 1, 2, ~1400, 65507 bytes and TCP
// connections that connect and close, send a fragment and stall, send garbage and close. The first byte is an
// undefined message type or "user message" (on an encrypting target: anything), so no input is a membership claim.
//   - the process survives (a crash is attributed to the case by the driver's journal),
//   - every connection that stalls is closed by the node within TCPTimeout (300 ms) + 10 s of slack,
//   - while the stalled connections are open the stream listener still serves the witness (SendReliable is delivered),
//   - afterwards the packet listener still answers (Ping both ways) and the stream listener still serves,
//   - no goroutine is left in a stream handler, no foreign name ever appears in Members() or the event log,
//   - after Shutdown no goroutine is left inside memberlist and the ports are released.

type SockIn struct {
	Kind string
	N    int
	B0   int // first byte class: 0 undefined type, 1 user message, 2 any (only used as drawn when the target encrypts)
	Seed int64
}

type SockPlan struct {
	Seed   uint64
	Mode   int
	Label  string
	Enc    bool
	Inputs []SockIn
}

var sockInKinds = []string{"udp", "udp", "udp-empty", "udp-max", "tcp-close", "tcp-stall", "tcp-stall", "tcp-garbage-close", "tcp-label-stall", "tcp-big-close"}

func genSockPlan(t *rapid.T) SockPlan {
	p := SockPlan{Seed: rapid.Uint64Range(1, 1<<30).Draw(t, "seed"), Mode: rapid.IntRange(0, 2).Draw(t, "mode"),
		Label: rapid.SampledFrom([]string{"", "lbl"}).Draw(t, "label"), Enc: rapid.Bool().Draw(t, "enc")}
	n := rapid.IntRange(1, 24).Draw(t, "n")
	for i := 0; i < n; i++ {
		p.Inputs = append(p.Inputs, SockIn{Kind: rapid.SampledFrom(sockInKinds).Draw(t, "kind"),
			N:  rapid.SampledFrom([]int{1, 2, 3, 7, 16, 45, 200, 1399, 1400, 1401, 9000}).Draw(t, "len"),
			B0: rapid.IntRange(0, 2).Draw(t, "b0"), Seed: rapid.Int64Range(1, 1<<40).Draw(t, "s")})
	}
	return p
}

func sockBytes(in SockIn, enc bool, n int) []byte {
	r := rand.New(rand.NewSource(in.Seed))
	b := make([]byte, n)
	_, _ = r.Read(b)
	if n == 0 {
		return b
	}
	switch {
	case in.B0 == 2 && enc:
	case in.B0 == 1:
		b[0] = 8 // user message: delivered to the delegate at most, never a membership claim
	default:
		b[0] = byte(14 + r.Intn(200)) // 14..213: not a message type, not the label marker (244)
	}
	return b
}

var sockMu sync.Mutex

func handlerGoroutines() []string {
	var out []string
	for _, g := range realnet.LibGoroutines() {
		if strings.Contains(g, "(*Memberlist).handleConn") {
			out = append(out, g)
		}
	}
	return out
}

func runSock(pl SockPlan) (res vfx.Result) {
	sockMu.Lock()
	defer sockMu.Unlock()
	if left := realnet.WaitNoLibGoroutines(10 * time.Second); len(left) > 0 {
		res.Err = fmt.Errorf("goroutines inside memberlist before the case started:\n%s", strings.Join(left, "\n\n"))
		return
	}
	mk := func(name string) puppet.NodeConf {
		c := puppet.NodeConf{Name: name, IndirectChecks: 0, ProbeIntervalMs: 1000, ProbeTimeoutMs: 500, GossipIntervalMs: 50,
			TCPTimeoutMs: 300, Label: pl.Label, SuspicionMult: 8, DisableTcpPings: true}
		if pl.Enc {
			c.Keys = [][]byte{[]byte("0123456789abcdef")}
		}
		return c
	}
	a, err := realnet.Start(mk("target"), pl.Mode, 0, false)
	if err != nil {
		res.Err = fmt.Errorf("cannot create the target: %v", err)
		return
	}
	w, err := realnet.Start(mk("witness"), realnet.ModeDefault, 0, false)
	if err != nil {
		_ = a.M.Shutdown()
		res.Err = fmt.Errorf("cannot create the witness: %v", err)
		return
	}
	var conns []net.Conn
	defer func() {
		for _, c := range conns {
			_ = c.Close()
		}
		_ = a.M.Shutdown()
		_ = w.M.Shutdown()
		if res.Err != nil {
			return
		}
		if left := realnet.WaitNoLibGoroutines(10 * time.Second); len(left) > 0 {
			res.Err = fmt.Errorf("%d goroutine(s) still inside memberlist 10 s after both nodes were shut down:\n%s", len(left), strings.Join(left, "\n\n"))
			return
		}
		if own := realnet.OwnSocketsOnPort(a.Port); len(own) > 0 {
			res.Err = fmt.Errorf("target shut down but this process still holds %v", own)
		}
	}()
	joined := false
	for i := 0; i < 4 && !joined; i++ {
		_, err := w.M.Join([]string{a.Addr()})
		joined = err == nil
	}
	if !joined {
		res.Labels = append(res.Labels, "sock-join-failed")
		return
	}

	// the witness's questions
	serial := 0
	reliable := func(what string) error {
		for attempt := 0; attempt < 4; attempt++ {
			serial++
			tok := []byte(fmt.Sprintf("witness-%d-%d", pl.Seed, serial))
			if err := w.M.SendReliable(a.M.LocalNode(), tok); err != nil {
				continue
			}
			deadline := time.Now().Add(3 * time.Second)
			for time.Now().Before(deadline) {
				for _, e := range a.Rec.Events() {
					if e.Kind == "msg" && bytes.Equal(e.Data, tok) {
						return nil
					}
				}
				time.Sleep(5 * time.Millisecond)
			}
		}
		return fmt.Errorf("%s: the target's stream listener no longer serves: 4 reliable messages from the witness were not delivered", what)
	}
	ping := func(what string) error {
		var last error
		for attempt := 0; attempt < 6; attempt++ {
			if _, last = w.M.Ping("target", &net.UDPAddr{IP: net.IPv4(127, 0, 0, 1), Port: a.Port}); last == nil {
				break
			}
		}
		if last != nil {
			return fmt.Errorf("%s: the target's packet listener no longer answers: 6 pings from the witness failed (%v)", what, last)
		}
		for attempt := 0; attempt < 6; attempt++ {
			if _, last = a.M.Ping("witness", &net.UDPAddr{IP: net.IPv4(127, 0, 0, 1), Port: w.Port}); last == nil {
				return nil
			}
		}
		return fmt.Errorf("%s: the target no longer receives acknowledgements: 6 pings to the witness failed (%v)", what, last)
	}
	if err := reliable("before the barrage"); err != nil {
		res.Labels = append(res.Labels, "sock-slow-machine") // nothing hostile was sent yet
		return
	}

	us, err := net.ListenUDP("udp", &net.UDPAddr{IP: net.IPv4(127, 0, 0, 1)})
	if err != nil {
		res.Err = err
		return
	}
	defer us.Close()
	dst := &net.UDPAddr{IP: net.IPv4(127, 0, 0, 1), Port: a.Port}
	type stalled struct {
		c  net.Conn
		at time.Time
		in SockIn
	}
	var stalls []stalled
	kinds := map[string]bool{}
	for _, in := range pl.Inputs {
		kinds[in.Kind] = true
		switch in.Kind {
		case "udp":
			_, _ = us.WriteToUDP(sockBytes(in, pl.Enc, in.N), dst)
		case "udp-empty":
			_, _ = us.WriteToUDP(nil, dst)
		case "udp-max":
			_, _ = us.WriteToUDP(sockBytes(in, pl.Enc, 65507), dst)
		default:
			c, err := net.DialTimeout("tcp", a.Addr(), 2*time.Second)
			if err != nil {
				res.Err = fmt.Errorf("input %+v: the target no longer accepts connections: %v", in, err)
				return
			}
			conns = append(conns, c)
			switch in.Kind {
			case "tcp-close":
				_ = c.Close()
			case "tcp-stall":
				_, _ = c.Write(sockBytes(in, pl.Enc, in.N%64+1))
				stalls = append(stalls, stalled{c, time.Now(), in})
			case "tcp-label-stall":
				_, _ = c.Write(append([]byte{244, 200}, bytes.Repeat([]byte("L"), in.N%150)...))
				stalls = append(stalls, stalled{c, time.Now(), in})
			case "tcp-garbage-close":
				_, _ = c.Write(sockBytes(in, pl.Enc, in.N))
				_ = c.Close()
			case "tcp-big-close":
				_ = c.SetWriteDeadline(time.Now().Add(2 * time.Second))
				_, _ = c.Write(sockBytes(in, pl.Enc, 1<<20))
				_ = c.Close()
			}
		}
	}
	for k := range kinds {
		res.Labels = append(res.Labels, "sock-in:"+k)
	}
	res.NonTrivial = true
	if len(stalls) > 0 {
		// the listener is not held up by connections that say nothing
		if err := reliable(fmt.Sprintf("with %d stalled connections open", len(stalls))); err != nil {
			res.Err = err
			return
		}
		res.Labels = append(res.Labels, "sock-served-while-stalled")
	}
	// every stalled connection is closed by the node
	for _, s := range stalls {
		_ = s.c.SetReadDeadline(s.at.Add(300*time.Millisecond + 10*time.Second))
		buf := make([]byte, 4096)
		for {
			_, err := s.c.Read(buf)
			if err == nil {
				continue // an error reply is allowed
			}
			if ne, ok := err.(net.Error); ok && ne.Timeout() {
				res.Err = fmt.Errorf("input %+v: the connection was still open %v after it went silent (TCPTimeout 300 ms)", s.in, time.Since(s.at).Round(time.Millisecond))
				return
			}
			break
		}
	}
	if err := ping("after the barrage"); err != nil {
		res.Err = err
		return
	}
	if err := reliable("after the barrage"); err != nil {
		res.Err = err
		return
	}
	deadline := time.Now().Add(10 * time.Second)
	for {
		h := handlerGoroutines()
		if len(h) == 0 {
			break
		}
		if time.Now().After(deadline) {
			res.Err = fmt.Errorf("%d stream handler goroutine(s) still running 10 s after the last input:\n%s", len(h), strings.Join(h, "\n\n"))
			return
		}
		time.Sleep(20 * time.Millisecond)
	}
	for _, n := range a.M.Members() {
		if n.Name != "target" && n.Name != "witness" {
			res.Err = fmt.Errorf("foreign member %q appeared in the target's Members()", n.Name)
			return
		}
	}
	for _, e := range a.Rec.Events() {
		if (e.Kind == "join" || e.Kind == "leave" || e.Kind == "update") && e.Name != "target" && e.Name != "witness" {
			res.Err = fmt.Errorf("membership event about a foreign name: %v", e)
			return
		}
	}
	return
}

func TestHostileSockets(t *testing.T) {
	vfx.Check(t, genSockPlan, runSock)
}
