// C13 — hostile bytes never crash, hang, or bypass the documented resource
// caps. A real node with a populated view receives structure-aware mutations
// of genuine traffic, raw byte strings and stream scripts.
package c13

import (
	"bytes"
	"fmt"
	"runtime"
	"sort"
	"strings"
	"testing"
	"testing/synctest"
	"time"

	"github.com/hashicorp/go-msgpack/v2/codec"
	"pgregory.net/rapid"

	"verif/harness/hostile"
	"verif/harness/vfx"
	"verif/harness/wire"
)

func TestMain(m *testing.M) { vfx.Main(m) }

var corpus = hostile.Corpus()

type Mut struct {
	Kind  string // none | setbyte | bitflip | truncate | extend | splice | nest | lenfield | raw
	Pos   int    // per-mille
	Val   int
	Bit   int
	N     int
	Other int
	Depth int
	Raw   []byte `json:",omitempty"`
}

type Plan struct {
	Label    string
	Mode     int // 0 no encryption, 1 encryption + verify incoming, 2 encryption without verify incoming
	G        int
	Layer    string // plain (mutate before sealing: reaches the inner decoders) | outer (mutate the sealed bytes)
	M        Mut
	Stall    bool // stream: do not close the write side
	StreamAs int  // raw inputs: 0 packet, 1 stream
}

func genMut(t *rapid.T) Mut {
	m := Mut{Kind: rapid.SampledFrom([]string{"setbyte", "setbyte", "bitflip", "truncate", "truncate", "extend", "splice", "nest", "lenfield", "raw", "none"}).Draw(t, "kind")}
	m.Pos = rapid.OneOf(rapid.IntRange(0, 999), rapid.SampledFrom([]int{0, 1, 2, 5, 9, 10, 15, 20, 30, 40, 50, 60, 998, 999})).Draw(t, "pos")
	m.Val = rapid.SampledFrom([]int{0, 1, 7, 9, 10, 12, 127, 128, 192, 217, 220, 221, 223, 244, 255}).Draw(t, "val")
	m.Bit = rapid.IntRange(0, 7).Draw(t, "bit")
	m.N = rapid.SampledFrom([]int{1, 2, 5, 300, 70000}).Draw(t, "n")
	m.Other = rapid.IntRange(0, len(corpus)-1).Draw(t, "other")
	m.Depth = rapid.IntRange(1, 40).Draw(t, "depth")
	if m.Kind == "raw" {
		m.Raw = rapid.SliceOfN(rapid.Byte(), 0, 64).Draw(t, "raw")
		if len(m.Raw) > 0 && rapid.Bool().Draw(t, "typed") {
			m.Raw[0] = byte(rapid.SampledFrom([]int{0, 1, 2, 3, 4, 5, 6, 7, 8, 9, 10, 11, 12, 13, 244}).Draw(t, "type"))
		}
	}
	return m
}

func genPlan(t *rapid.T) Plan {
	return Plan{Label: rapid.SampledFrom([]string{"", "lbl"}).Draw(t, "label"), Mode: rapid.IntRange(0, 2).Draw(t, "mode"),
		G: rapid.IntRange(0, len(corpus)-1).Draw(t, "g"), Layer: rapid.SampledFrom([]string{"plain", "plain", "outer"}).Draw(t, "layer"),
		M: genMut(t), Stall: rapid.IntRange(0, 4).Draw(t, "stall") == 0, StreamAs: rapid.IntRange(0, 1).Draw(t, "as")}
}

// apply mutates b.
func apply(b []byte, m Mut, stream bool) []byte {
	out := append([]byte(nil), b...)
	at := func() int {
		if len(out) == 0 {
			return 0
		}
		return m.Pos * len(out) / 1000
	}
	switch m.Kind {
	case "setbyte":
		if len(out) > 0 {
			out[at()] = byte(m.Val)
		}
	case "bitflip":
		if len(out) > 0 {
			out[at()] ^= 1 << uint(m.Bit)
		}
	case "truncate":
		out = out[:at()]
	case "cutabs":
		// absolute cut: N bytes from the start for N <= 12, otherwise 15-N bytes before the end
		switch {
		case m.N <= 12 && m.N <= len(out):
			out = out[:m.N]
		case m.N > 12 && len(out) >= 16-m.N:
			out = out[:len(out)-(16-m.N)]
		}
	case "extend":
		n := m.N
		if n > 70000 {
			n = 70000
		}
		out = append(out, bytes.Repeat([]byte{byte(m.Val)}, n)...)
	case "splice":
		o := corpus[m.Other].Plain
		cut := at()
		if cut > len(o) {
			cut = len(o)
		}
		out = append(out[:at()], o[cut:]...)
	case "nest":
		for i := 0; i < m.Depth; i++ {
			if (i+m.Val)%2 == 0 {
				out = wire.Compound([][]byte{out})
			} else {
				out = wire.CompressWrap(out)
			}
		}
	case "lenfield":
		// overwrite a 1/2/4-byte big-endian field at the position with an extreme value
		vals := [][]byte{{0}, {1}, {255}, {0, 0}, {255, 255}, {0x7f, 0xff, 0xff, 0xff}, {0xff, 0xff, 0xff, 0xff}, {0x01, 0x40, 0x00, 0x01}}
		v := vals[(m.Val+m.Bit)%len(vals)]
		i := at()
		for j := 0; j < len(v) && i+j < len(out); j++ {
			out[i+j] = v[j]
		}
	case "raw":
		out = append([]byte(nil), m.Raw...)
	}
	return out
}

// extract is the lenient claim extractor: every membership claim and user
// payload that some prefix-tolerant parse of b can yield.
type extracted struct {
	names map[string]bool
	users [][]byte
	any   bool
}

func lenientDecode(body []byte, v any) bool {
	// decode from the slice: the reader based decoder would allocate whatever a length header declares
	hd := codec.MsgpackHandle{}
	return codec.NewDecoderBytes(body, &hd).Decode(v) == nil
}

func extractPacket(b []byte, depth int, ex *extracted) {
	if len(b) < 1 || depth > 64 {
		return
	}
	t, body := b[0], b[1:]
	switch t {
	case wire.HasCrcMsg:
		// (only valid at the outermost level; harmless to look inside)
		if len(b) >= 5 {
			extractPacket(b[5:], depth+1, ex)
		}
	case wire.CompoundMsg:
		parts, _, err := wire.SplitCompound(body)
		if _, trailing := err.(*wire.TrailingError); err != nil && !trailing {
			return
		}
		for _, p := range parts {
			extractPacket(p, depth+1, ex)
		}
	case wire.CompressMsg:
		d, err := wire.Decompress(body)
		if err != nil && len(d) == 0 {
			return
		}
		extractPacket(d, depth+1, ex)
	case wire.AliveMsg:
		var a wire.Alive
		_ = lenientDecode(body, &a)
		ex.names[a.Node] = true
		ex.any = true
	case wire.SuspectMsg:
		var s wire.Suspect
		_ = lenientDecode(body, &s)
		ex.names[s.Node] = true
		ex.any = true
	case wire.DeadMsg:
		var d wire.Dead
		_ = lenientDecode(body, &d)
		ex.names[d.Node] = true
		ex.any = true
	case wire.UserMsg:
		ex.users = append(ex.users, body)
		ex.any = true
	}
}

func extractStream(b []byte, ex *extracted) {
	if len(b) < 1 {
		return
	}
	plain := b
	if plain[0] == wire.CompressMsg {
		d, _ := wire.Decompress(plain[1:])
		if len(d) == 0 {
			return
		}
		plain = d
	}
	switch plain[0] {
	case wire.PushPullMsg:
		hd := codec.MsgpackHandle{}
		dec := codec.NewDecoderBytes(plain[1:], &hd)
		var h wire.PushPullHeader
		if dec.Decode(&h) != nil {
			return
		}
		for i := 0; i < h.Nodes && i < 10000; i++ {
			var n wire.PushNodeState
			if dec.Decode(&n) != nil {
				break
			}
			ex.names[n.Name] = true
			ex.any = true
		}
		if used := 1 + dec.NumBytesRead(); used <= len(plain) {
			ex.users = append(ex.users, plain[used:])
		}
	case wire.UserMsg:
		hd := codec.MsgpackHandle{}
		dec := codec.NewDecoderBytes(plain[1:], &hd)
		var h wire.UserMsgHeader
		if dec.Decode(&h) != nil {
			return
		}
		if used := 1 + dec.NumBytesRead(); used <= len(plain) {
			ex.users = append(ex.users, plain[used:])
		}
		ex.any = true
	}
}

var theT *testing.T

func runPlan(pl Plan) (res vfx.Result) {
	synctest.Test(theT, func(t *testing.T) { res = run(pl) })
	return
}

func run(pl Plan) (res vfx.Result) {
	fail := func(f string, a ...any) vfx.Result { res.Err = fmt.Errorf(f, a...); return res }
	cfg := hostile.Cfg{Label: pl.Label, Encrypt: pl.Mode > 0, NoVerify: pl.Mode == 2}
	w, err := hostile.NewWorld(1, cfg)
	if err != nil {
		return fail("world: %v", err)
	}
	defer w.Close()
	p := w.P
	g := corpus[pl.G]
	stream := g.Stream
	if pl.M.Kind == "raw" {
		stream = pl.StreamAs == 1
	}
	// candidate plaintexts whose claims may legitimately take effect
	var cands [][]byte
	var raw []byte
	if pl.Layer == "plain" {
		mp := apply(g.Plain, pl.M, stream)
		raw = w.SealDefault(mp, stream)
		cands = append(cands, mp)
	} else {
		sealed := w.SealDefault(g.Plain, stream)
		raw = apply(sealed, pl.M, stream)
		cands = append(cands, g.Plain)
		// without (enforced) encryption the bytes behind the label header are themselves a plaintext
		if rest, _, err := wire.LabelSplit(raw); err == nil && pl.Mode != 1 {
			cands = append(cands, rest)
			if stream && len(rest) > 0 {
				cands = append(cands, rest)
			}
		}
		if pl.Mode != 1 {
			cands = append(cands, raw)
		}
	}
	ex := &extracted{names: map[string]bool{}}
	for _, c := range cands {
		if stream {
			extractStream(c, ex)
		} else {
			extractPacket(c, 0, ex)
		}
	}
	if stream && vfx.IsKnown("C13-msgpack-stream-alloc") {
		for _, c := range append(cands, raw) {
			if hasBig32(c) {
				// listed known finding: a 32-bit msgpack length header on the stream path is allocated
				// before the data arrives (go-msgpack's reader based decoder); excluded by construction
				res.Known = "C13-msgpack-stream-alloc"
				res.Labels = []string{"excluded:msgpack-32bit-length-on-stream"}
				return res
			}
		}
	}
	before, err := p.Dump()
	if err != nil {
		return fail("dump before: %v", err)
	}
	evIdx := p.Rec.Len()
	var ms0 runtime.MemStats
	runtime.ReadMemStats(&ms0)
	// ---- deliver ----
	var conn interface {
		PeerClosed() bool
		Close() error
	}
	if stream {
		c, err := w.Att.Dial(p.Addr(), time.Second)
		if err != nil {
			return fail("dial: %v", err)
		}
		_, _ = c.Write(raw)
		if !pl.Stall {
			c.CloseWrite()
		}
		conn = c
		// the node must be done with the stream within its TCP timeout (2 s)
		deadline := time.Now().Add(2*time.Second + 300*time.Millisecond)
		for time.Now().Before(deadline) && !c.PeerClosed() {
			time.Sleep(50 * time.Millisecond)
		}
		if !c.PeerClosed() {
			return fail("%s/%s/%+v: the node did not close the stream within its TCP timeout (stall=%v, %d bytes sent)", g.Name, pl.Layer, pl.M, pl.Stall, len(raw))
		}
		c.Close()
	} else {
		w.Att.Send(p.Addr(), raw)
	}
	_ = conn
	p.Settle()
	time.Sleep(400 * time.Millisecond)
	p.Settle()
	// ---- no memory amplification: the largest documented buffer is the 40 MiB decompression cap ----
	var ms1 runtime.MemStats
	runtime.ReadMemStats(&ms1)
	if grown := (ms1.TotalAlloc - ms0.TotalAlloc) >> 20; grown > 512 {
		return fail("%s/%s/%+v: a %d-byte input made the process allocate %d MiB (no documented cap allows more than 40 MiB per message)", g.Name, pl.Layer, pl.M, len(raw), grown)
	}
	// ---- the node is still alive and serving both listeners ----
	after, err := p.Dump()
	if err != nil {
		return fail("%s/%s/%+v: the stream listener no longer answers: %v", g.Name, pl.Layer, pl.M, err)
	}
	tapIdx := p.TapLen()
	w.Att.Send(p.Addr(), w.SealDefault(wire.Encode(wire.PingMsg, &wire.Ping{SeqNo: 31337, Node: "n0"}), false))
	p.Settle()
	acked := false
	evts, _ := p.Net.EventsSince(tapIdx)
	for _, e := range evts {
		if e.Kind == "pkt" && e.Src == p.Addr() && e.Dst == w.AttAddr {
			if info, err := p.Codec.DecodePacket(e.Data); err == nil {
				for _, l := range info.Leaves {
					if a, ok := l.V.(*wire.Ack); ok && a.SeqNo == 31337 {
						acked = true
					}
				}
			}
		}
	}
	if !acked {
		return fail("%s/%s/%+v: the packet listener no longer answers pings", g.Name, pl.Layer, pl.M)
	}
	// ---- membership untouched unless explained ----
	for name, r := range after {
		if b, ok := before[name]; (!ok || b != r) && !ex.names[name] {
			// the node's own timers may move m1/m2 only if a suspicion was extracted; nothing else moves in 3 s
			return fail("%s/%s/%+v: record %s changed (%v -> %v) although no parse of the input names it (extracted names %v)", g.Name, pl.Layer, pl.M, name, before[name], r, keys(ex.names))
		}
	}
	for name := range before {
		if _, ok := after[name]; !ok {
			return fail("%s/%s/%+v: record %s disappeared", g.Name, pl.Layer, pl.M, name)
		}
	}
	for _, e := range p.Rec.Since(evIdx) {
		switch e.Kind {
		case "join", "leave", "update", "conflict":
			if !ex.names[e.Name] {
				return fail("%s/%s/%+v: event %v although no parse of the input names %s", g.Name, pl.Layer, pl.M, e, e.Name)
			}
		case "msg", "merge-remote":
			ok := false
			for _, u := range ex.users {
				if bytes.HasPrefix(u, e.Data) {
					ok = true
				}
			}
			if !ok {
				return fail("%s/%s/%+v: delegate received %d bytes %x.. that no parse of the input yields", g.Name, pl.Layer, pl.M, len(e.Data), e.Data[:min(len(e.Data), 12)])
			}
		}
	}
	res.Labels = []string{"mut:" + pl.M.Kind, "layer:" + pl.Layer, fmt.Sprintf("mode=%d", pl.Mode), "msg:" + g.Name}
	if stream {
		res.Labels = append(res.Labels, "stream")
	}
	// non-trivial: the input gets past the outermost layer (label and, when configured, decryption)
	res.NonTrivial = pl.Layer == "plain" || pl.Mode != 1
	if ex.any {
		res.Labels = append(res.Labels, "claims-extracted")
	}
	return res
}

// hasBig32 reports whether b contains a msgpack str32 / bin32 / ext32 header
// (0xdb, 0xc6, 0xc9) declaring more than 8 MiB, at any offset.
func hasBig32(b []byte) bool {
	for i := 0; i+4 < len(b); i++ {
		if b[i] == 0xdb || b[i] == 0xc6 || b[i] == 0xc9 {
			if n := uint32(b[i+1])<<24 | uint32(b[i+2])<<16 | uint32(b[i+3])<<8 | uint32(b[i+4]); n > 8<<20 {
				return true
			}
		}
	}
	return false
}

func keys(m map[string]bool) []string {
	var k []string
	for x := range m {
		k = append(k, x)
	}
	sort.Strings(k)
	return k
}

func TestHostileInputs(t *testing.T) {
	theT = t
	vfx.Check(t, genPlan, runPlan)
}

// TestSingleByteSweep enumerates every single-byte truncation and a set of
// byte substitutions at every position of every genuine plaintext (sealed
// correctly afterwards), in the no-encryption and the encrypted
// configuration. Exhaustive over positions in the thorough tier; every third
// position in the quick tier.
func TestSingleByteSweep(t *testing.T) {
	theT = t
	step := 3
	if vfx.Thorough() {
		step = 1
	}
	k, n := vfx.Shard()
	vals := []int{0, 255, 7, 9, 220, 0x91}
	cases := 0
	for gi, g := range corpus {
		if len(g.Plain) > 400 {
			continue
		}
		for pos := 0; pos < len(g.Plain); pos += step {
			cases++
			if cases%n != k {
				continue
			}
			for _, mode := range []int{0, 1} {
				muts := []Mut{{Kind: "truncate", Pos: pos * 1000 / len(g.Plain)}}
				for _, v := range vals {
					muts = append(muts, Mut{Kind: "setbyte", Pos: (pos*1000 + 999) / len(g.Plain), Val: v})
				}
				for _, m := range muts {
					pl := Plan{Label: "", Mode: mode, G: gi, Layer: "plain", M: m}
					vfx.Journal("TestHostileInputs", pl)
					r := runPlan(pl)
					r.Key = fmt.Sprintf("%d/%d/%d/%s/%d", gi, pos, mode, m.Kind, m.Val)
					r.Labels = append(r.Labels, "sweep")
					vfx.CheckCaseAs(t, "TestHostileInputs", pl, r)
					if r.Err != nil {
						return
					}
				}
			}
		}
	}
	// stream cut points of the outer layer (label header, frame header): every offset of the first 12
	// and the last 3 sealed bytes, sender stalled or closed, for every stream message and configuration
	for gi, g := range corpus {
		if !g.Stream {
			continue
		}
		for _, label := range []string{"", "lbl"} {
			for _, mode := range []int{0, 1} {
				for _, stall := range []bool{true, false} {
					for off := 0; off <= 15; off++ {
						cases++
						if cases%n != k {
							continue
						}
						if !vfx.Thorough() && (off%2 == 1 || (gi%2 == 1 && !stall)) {
							continue
						}
						pl := Plan{Label: label, Mode: mode, G: gi, Layer: "outer", M: Mut{Kind: "cutabs", N: off}, Stall: stall}
						vfx.Journal("TestHostileInputs", pl)
						r := runPlan(pl)
						r.Key = fmt.Sprintf("cut/%d/%s/%d/%v/%d", gi, label, mode, stall, off)
						r.Labels = append(r.Labels, "sweep-cut")
						vfx.CheckCaseAs(t, "TestHostileInputs", pl, r)
						if r.Err != nil {
							return
						}
					}
				}
			}
		}
	}
	if step == 1 {
		vfx.SetExhaustive("TestHostileInputs", "sweep: positions x {truncate, 6 substitutions} x {plain, encrypted} for genuine plaintexts <= 400 bytes")
	}
	_ = strings.Repeat
}

// TestKnownMsgpackStreamAlloc re-demonstrates the listed known finding
// C13-msgpack-stream-alloc with one fixed input; it reports, never fails.
func TestKnownMsgpackStreamAlloc(t *testing.T) {
	if !vfx.IsKnown("C13-msgpack-stream-alloc") {
		t.Skip("not listed as known")
	}
	// a TCP ping whose second key is an ext32 header declaring 1.9 GB
	in := []byte{0, 130, 164, 78, 111, 100, 101, 162, 110, 48, 165, 83, 101, 170, 212, 139, 201, 113, 127, 255, 255, 255, 9}
	var grown uint64
	synctest.Test(t, func(t *testing.T) {
		w, err := hostile.NewWorld(1, hostile.Cfg{})
		if err != nil {
			t.Fatal(err)
		}
		defer w.Close()
		var ms0, ms1 runtime.MemStats
		runtime.ReadMemStats(&ms0)
		_, _ = w.Deliver(in, true)
		runtime.ReadMemStats(&ms1)
		grown = (ms1.TotalAlloc - ms0.TotalAlloc) >> 20
	})
	if grown > 512 {
		vfx.ReportKnown(t.Name(), "C13-msgpack-stream-alloc", fmt.Sprintf("a %d-byte stream message whose msgpack ext32 header declares 1.9 GB made the node allocate %d MiB before the read failed", len(in), grown))
	} else {
		vfx.Note(t.Name(), "known finding C13-msgpack-stream-alloc did not reproduce (allocated %d MiB)", grown)
	}
	vfx.Record(t.Name(), map[string]any{"input": in}, vfx.Result{Labels: []string{"known-finding-regression"}})
}
