package c13

import "testing"

// Native coverage-guided fuzzing: data is the plaintext (sealed correctly for
// the configuration chosen by cfg, so it reaches the inner decoders) or, with
// cfg bit 7, the raw outer bytes.
func fuzzOne(t *testing.T, data []byte, cfg uint8, stream bool) {
	theT = t
	if len(data) > 1<<17 {
		return
	}
	if stream && hasBig32(data) {
		return // listed known finding C13-msgpack-stream-alloc, excluded by construction
	}
	pl := Plan{Mode: int(cfg>>1) % 3, Layer: "plain", M: Mut{Kind: "raw", Raw: data}, Stall: cfg&16 != 0}
	if cfg&1 != 0 {
		pl.Label = "lbl"
	}
	if cfg&128 != 0 {
		pl.Layer = "outer"
	}
	if stream {
		pl.StreamAs = 1
	}
	if r := runPlan(pl); r.Err != nil {
		t.Fatal(r.Err)
	}
}

func FuzzPacket(f *testing.F) {
	for _, g := range corpus {
		if !g.Stream {
			f.Add(g.Plain, uint8(0))
			f.Add(g.Plain, uint8(2))
		}
	}
	f.Add([]byte{7, 255, 0, 1}, uint8(0))
	f.Add([]byte{9, 0x82, 0xa4, 'A', 'l', 'g', 'o', 0, 0xa3, 'B', 'u', 'f', 0xc4, 0}, uint8(0))
	f.Fuzz(func(t *testing.T, data []byte, cfg uint8) { fuzzOne(t, data, cfg, false) })
}

func FuzzStream(f *testing.F) {
	for _, g := range corpus {
		if g.Stream {
			f.Add(g.Plain, uint8(0))
			f.Add(g.Plain, uint8(2))
		}
	}
	f.Add([]byte{10, 0, 0, 0, 0}, uint8(128))
	f.Add([]byte{10, 0xff, 0xff, 0xff, 0xff}, uint8(130))
	f.Fuzz(func(t *testing.T, data []byte, cfg uint8) { fuzzOne(t, data, cfg, true) })
}
