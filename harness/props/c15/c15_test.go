// C15 — outbound confidentiality: with a keyring and outgoing verification,
// every byte sequence a node hands to its transport is, apart from the
// cleartext label header, an AES-GCM ciphertext under its current primary key.
package c15

import (
	"bytes"
	"fmt"
	"net"
	"sort"
	"sync"
	"testing"
	"testing/synctest"
	"time"

	"github.com/hashicorp/memberlist"
	"pgregory.net/rapid"

	"verif/harness/cluster"
	"verif/harness/puppet"
	"verif/harness/simnet"
	"verif/harness/vfx"
	"verif/harness/wire"
)

func TestMain(m *testing.M) { vfx.Main(m) }

type Plan struct {
	Seed       uint64
	N          int
	Label      string
	PVs        []uint8
	NoCompress bool
	KeyLenOld  int
	KeyLenNew  int
	Rotate     bool
	StartEmpty bool  // nodes are created with an empty keyring; the key is installed at run time (per node, around 1.5 s)
	KeyAtMs    []int // per node: instant of the first AddKey when StartEmpty
	UseAtMs    []int // per node: instant of UseKey(new) (AddKey everywhere happens at 4 s)
	BlockUDP   int   // node whose inbound UDP is cut for a while (indirect pings, nacks, TCP fallback)
	BlockTCP   bool  // also refuse its streams (so that probes fail completely and suspicion/refutation traffic appears)
	LeaveNode  int
	Sends      int
}

func genPlan(t *rapid.T) Plan {
	p := Plan{Seed: rapid.Uint64Range(1, 1<<40).Draw(t, "seed"), N: rapid.IntRange(4, 6).Draw(t, "n")}
	p.Label = rapid.SampledFrom([]string{"", "conf"}).Draw(t, "label")
	p.PVs = make([]uint8, p.N)
	for i := range p.PVs {
		p.PVs[i] = uint8(rapid.SampledFrom([]int{1, 2, 2, 3, 4, 5}).Draw(t, "pv"))
	}
	p.NoCompress = rapid.Bool().Draw(t, "nocomp")
	p.KeyLenOld = rapid.SampledFrom([]int{16, 24, 32}).Draw(t, "kold")
	p.KeyLenNew = rapid.SampledFrom([]int{16, 24, 32}).Draw(t, "knew")
	p.Rotate = rapid.Bool().Draw(t, "rotate")
	p.UseAtMs = make([]int, p.N)
	for i := range p.UseAtMs {
		p.UseAtMs[i] = 6000 + rapid.IntRange(0, 6000).Draw(t, "useat")
	}
	p.StartEmpty = rapid.IntRange(0, 3).Draw(t, "startempty") == 0
	p.KeyAtMs = make([]int, p.N)
	for i := range p.KeyAtMs {
		p.KeyAtMs[i] = 1500 + rapid.IntRange(0, 300).Draw(t, "keyat")
	}
	p.BlockUDP = rapid.IntRange(1, p.N-1).Draw(t, "block")
	p.BlockTCP = rapid.Bool().Draw(t, "blocktcp")
	p.LeaveNode = rapid.IntRange(1, p.N-1).Draw(t, "leave")
	p.Sends = rapid.IntRange(2, 6).Draw(t, "sends")
	return p
}

func mkKey(n int, tag byte) []byte {
	k := make([]byte, n)
	for i := range k {
		k[i] = tag + byte(i*5)
	}
	return k
}

var theT *testing.T

func runPlan(pl Plan) (res vfx.Result) {
	synctest.Test(theT, func(t *testing.T) { res = run(pl) })
	return
}

type attacker struct{}

func (attacker) OnPacket(*simnet.Endpoint, string, []byte)             {}
func (attacker) OnStream(_ *simnet.Endpoint, _ string, c *simnet.Conn) { c.Close() }

func run(pl Plan) (res vfx.Result) {
	labels := map[string]bool{}
	done := func() vfx.Result {
		for l := range labels {
			res.Labels = append(res.Labels, l)
		}
		sort.Strings(res.Labels)
		return res
	}
	fail := func(f string, a ...any) vfx.Result { res.Err = fmt.Errorf(f, a...); return done() }
	c := cluster.New(pl.Seed)
	defer c.ShutdownAll()
	oldKey, newKey := mkKey(pl.KeyLenOld, 3), mkKey(pl.KeyLenNew, 101)
	canary := []byte(fmt.Sprintf("CANARY-%016x-%016x", pl.Seed*0x9e3779b97f4a7c15, pl.Seed^0xdeadbeefcafef00d))
	n := pl.N
	nodes := make([]*cluster.Node, n)
	useAt := make([]time.Duration, n) // instant at which node i switched its primary key (0 = never)
	var mu sync.Mutex
	startKeys := [][]byte{oldKey}
	if pl.StartEmpty {
		startKeys = nil
	}
	keyAt := make([]time.Duration, n) // instant from which node i must encrypt (0 = from the start)
	for i := 0; i < n; i++ {
		nc := puppet.NodeConf{Name: fmt.Sprintf("n%d-%s", i, canary[:12]), IP: fmt.Sprintf("10.0.0.%d", i+1), Port: 7946, ProtocolVersion: pl.PVs[i],
			Label: pl.Label, Keys: startKeys, EmptyKeyring: pl.StartEmpty, NoCompress: pl.NoCompress, IndirectChecks: 2, ProbeIntervalMs: 500, ProbeTimeoutMs: 150,
			GossipIntervalMs: 100, PushPullMs: 3000, TCPTimeoutMs: 1000, SuspicionMult: 3, WithPing: true,
			Meta: append([]byte("meta-"), canary...)}
		nd, err := c.Start(nc)
		if err != nil {
			return fail("start: %v", err)
		}
		nd.Rec.SetLocalState(append([]byte("state-"), canary...))
		nd.Rec.SetAckPayload(append([]byte("ack-"), canary...))
		nodes[i] = nd
		if i > 0 {
			if _, err := nd.M.Join([]string{nodes[0].Addr()}); err != nil {
				return fail("join: %v", err)
			}
		}
	}
	att := c.Net.NewEndpoint("10.0.0.66", 7946, attacker{})
	var wg sync.WaitGroup
	spawn := func(at time.Duration, f func()) {
		wg.Add(1)
		go func() {
			defer wg.Done()
			if w := at - c.Net.Now(); w > 0 {
				time.Sleep(w)
			}
			f()
		}()
	}
	if pl.StartEmpty {
		for i := range nodes {
			i := i
			spawn(time.Duration(pl.KeyAtMs[i])*time.Millisecond, func() {
				if err := nodes[i].MC.Keyring.AddKey(oldKey); err != nil {
					panic(err)
				}
				mu.Lock()
				keyAt[i] = c.Net.Now()
				mu.Unlock()
			})
		}
		labels["key-installed-at-runtime"] = true
	}
	// user traffic
	for s := 0; s < pl.Sends; s++ {
		s := s
		spawn(time.Duration(1000+s*1700)*time.Millisecond, func() {
			from := nodes[s%n]
			mem := from.M.Members()
			// Members() hands out pointers into the node's own table, whose address and metadata fields are rewritten
			// under the node lock while we would be reading them: only the (immutable) name is taken from there, the
			// target is rebuilt from what the harness knows about that node
			name := mem[(s+1)%len(mem)].Name
			to := &memberlist.Node{Name: name}
			for _, nd := range nodes {
				if nd.Name() == name {
					to.Addr, to.Port = net.ParseIP(nd.Conf.IP).To4(), uint16(nd.Conf.Port)
				}
			}
			if to.Addr == nil {
				return
			}
			_ = from.M.SendBestEffort(to, append([]byte("be-"), canary...))
			_ = from.M.SendReliable(to, append([]byte("rel-"), canary...))
			// the older entry points reach the transport through the same two paths; they are send sites all the same
			_ = from.M.SendTo(&net.UDPAddr{IP: net.IP(to.Addr), Port: int(to.Port)}, append([]byte("to-"), canary...))
			_ = from.M.SendToAddress(memberlist.Address{Addr: to.Address(), Name: to.Name}, append([]byte("toaddr-"), canary...))
			_ = from.M.SendToUDP(to, append([]byte("toudp-"), canary...))
			_ = from.M.SendToTCP(to, append([]byte("totcp-"), canary...))
			from.Rec.QueueUser(append([]byte("gossip-"), canary...))
			from.Rec.SetMeta(append([]byte(fmt.Sprintf("meta%d-", s)), canary...))
			_ = from.M.UpdateNode(time.Second)
		})
	}
	// provoke error replies: plaintext and garbage streams from an outsider
	spawn(2500*time.Millisecond, func() {
		for i := 0; i < n; i++ {
			cn, err := att.Dial(nodes[i].Addr(), time.Second)
			if err != nil {
				continue
			}
			_, _ = cn.Write(wire.LabelWrap(wire.PushPull(true, nil, nil), pl.Label))
			_, _ = cn.ReadAllFor(time.Second)
			cn.Close()
			cn, err = att.Dial(nodes[i].Addr(), time.Second)
			if err != nil {
				continue
			}
			_, _ = cn.Write(wire.LabelWrap([]byte{wire.EncryptMsg, 0, 0, 0, 40, 1, 2, 3, 4, 5, 6, 7, 8, 9, 10, 11, 12, 13, 14, 15, 16, 17, 18, 19, 20, 21, 22, 23, 24, 25, 26, 27, 28, 29, 30, 31, 32, 33, 34, 35, 36, 37, 38, 39, 40}, pl.Label))
			_, _ = cn.ReadAllFor(time.Second)
			cn.Close()
		}
	})
	// cut inbound UDP of one node for a while: indirect pings, nacks, TCP fallback pings
	b := nodes[pl.BlockUDP]
	spawn(3*time.Second, func() {
		for i, nd := range nodes {
			if i != pl.BlockUDP {
				c.Net.BlockPackets(nd.Addr(), b.Addr(), true)
			}
		}
		if pl.BlockTCP {
			b.EP.SetDown(true)
		}
	})
	spawn(5500*time.Millisecond, func() {
		for i, nd := range nodes {
			if i != pl.BlockUDP {
				c.Net.BlockPackets(nd.Addr(), b.Addr(), false)
			}
		}
		b.EP.SetDown(false)
	})
	// key rotation in progress: install everywhere, then switch at independent instants
	if pl.Rotate {
		spawn(4*time.Second, func() {
			for _, nd := range nodes {
				if err := nd.MC.Keyring.AddKey(newKey); err != nil {
					panic(err)
				}
			}
		})
		for i := range nodes {
			i := i
			spawn(time.Duration(pl.UseAtMs[i])*time.Millisecond, func() {
				if err := nodes[i].MC.Keyring.UseKey(newKey); err != nil {
					panic(err)
				}
				mu.Lock()
				useAt[i] = c.Net.Now()
				mu.Unlock()
			})
		}
	}
	spawn(13*time.Second, func() { _ = nodes[pl.LeaveNode].M.Leave(2 * time.Second) })
	time.Sleep(16 * time.Second)
	wg.Wait()
	c.Wait()

	// ---- oracle over every buffer handed to a transport ----
	addrIdx := map[string]int{}
	for i, nd := range nodes {
		addrIdx[nd.Addr()] = i
	}
	classes := map[string]int{}
	checked := 0
	open := func(i int, at time.Duration, env []byte, aad []byte, stream bool, label string) ([]byte, error) {
		// the sender's primary key at the send instant (either key within 2 ms of its switch)
		mu.Lock()
		sw := useAt[i]
		mu.Unlock()
		keys := [][]byte{oldKey}
		switch {
		case sw > 0 && at > sw+2*time.Millisecond:
			keys = [][]byte{newKey}
		case sw > 0 && at >= sw-2*time.Millisecond:
			keys = [][]byte{oldKey, newKey}
		}
		if stream {
			p, used, err := wire.StreamOpen(keys, env, label)
			if err == nil && used != len(env) {
				return nil, fmt.Errorf("%d trailing bytes after the encrypted frame", len(env)-used)
			}
			return p, err
		}
		return wire.Open(keys, env, aad)
	}
	for _, e := range c.Net.Events() {
		i, real := addrIdx[e.Src]
		if !real || e.Data == nil {
			continue
		}
		if e.Kind != "pkt" && e.Kind != "pkt-lost" && e.Kind != "swrite" {
			continue
		}
		if pl.StartEmpty {
			// the obligation starts when the node's keyring holds a key (2 ms of grace around the call)
			mu.Lock()
			ka := keyAt[i]
			mu.Unlock()
			if ka == 0 || e.T <= ka+2*time.Millisecond {
				continue
			}
		}
		if bytes.Contains(e.Data, canary) || bytes.Contains(e.Data, canary[:12]) {
			return fail("%s at %v: %s>%s carries the canary (node name / metadata / user data) in clear: %q", e.Kind, e.T, e.Src, e.Dst, e.Data[:min(len(e.Data), 80)])
		}
		data := e.Data
		if e.Kind == "swrite" {
			// the label header of a dialled stream is a write of its own
			if pl.Label != "" && bytes.Equal(data, wire.LabelWrap(nil, pl.Label)) {
				classes["stream:label-header"]++
				continue
			}
			plain, err := open(i, e.T, data, nil, true, pl.Label)
			if err != nil {
				return fail("stream write at %v %s>%s (%d bytes, first %x) is not an encrypted frame under the sender's primary key and label: %v", e.T, e.Src, e.Dst, len(data), data[:min(len(data), 8)], err)
			}
			checked++
			inner := plain
			if len(inner) > 0 && inner[0] == wire.CompressMsg {
				if d, err := wire.Decompress(inner[1:]); err == nil && len(d) > 0 {
					inner = d
				}
			}
			if len(inner) > 0 {
				classes["stream:"+wire.TypeName(inner[0])]++
			}
			continue
		}
		rest, label, err := wire.LabelSplit(data)
		if err != nil {
			return fail("packet at %v %s>%s has a malformed label header: %v", e.T, e.Src, e.Dst, err)
		}
		if label != pl.Label {
			return fail("packet at %v %s>%s carries label %q, configured %q", e.T, e.Src, e.Dst, label, pl.Label)
		}
		plain, err := open(i, e.T, rest, []byte(label), false, label)
		if err != nil {
			return fail("packet at %v %s>%s (%d bytes, first %x) does not open under the sender's primary key with the label as associated data: %v", e.T, e.Src, e.Dst, len(rest), rest[:min(len(rest), 8)], err)
		}
		wantV := byte(1)
		if pl.PVs[i] == 1 {
			wantV = 0
		}
		if rest[0] != wantV {
			return fail("packet from a protocol-version-%d node uses encryption version %d", pl.PVs[i], rest[0])
		}
		checked++
		info, err := wire.Codec{}.DecodePacket(plain)
		if err != nil {
			return fail("decrypted packet at %v is not decodable: %v", e.T, err)
		}
		for _, l := range info.Leaves {
			classes["pkt:"+wire.TypeName(l.Type)]++
			if l.Type == wire.AckRespMsg {
				if a := l.V.(*wire.Ack); len(a.Payload) > 0 {
					classes["pkt:ack-with-payload"]++
				}
			}
			if d, ok := l.V.(*wire.Dead); ok && d.Node == d.From {
				classes["pkt:leave"]++
			}
		}
	}
	for k, v := range classes {
		labels[fmt.Sprintf("site:%s", k)] = true
		_ = v
	}
	res.Sub = map[string]int64{"buffers_checked": int64(checked)}
	for k, v := range classes {
		res.Sub["n:"+k] = int64(v)
	}
	res.NonTrivial = checked > 100
	return done()
}

func TestOutboundConfidentiality(t *testing.T) {
	theT = t
	vfx.Check(t, genPlan, runPlan)
}
