package c07

import (
	"fmt"
	"sort"
	"sync"
	"testing"
	"testing/synctest"
	"time"

	"pgregory.net/rapid"

	"verif/harness/cluster"
	"verif/harness/vfx"
)

// Cluster variant: real nodes under loss, delay, crashes, restarts, leaves and
// metadata updates; at every virtual second (a quiescent point) the event log
// of every running node must replay to its Members().

type CEv struct {
	AtMs int
	Kind string // crash | restart | leave | update
	Node int
}

type CPlan struct {
	Seed   uint64
	Conf   cluster.Conf
	Faults cluster.Faults
	DurMs  int
	Events []CEv
}

func genCPlan(t *rapid.T) CPlan {
	p := CPlan{Seed: rapid.Uint64Range(1, 1<<40).Draw(t, "seed")}
	p.Conf = cluster.GenConf(t, 3, 6)
	p.Conf.GossipToDeadMs = rapid.SampledFrom([]int{1000, 5000}).Draw(t, "gtd2")
	p.Conf.SuspicionMult = rapid.IntRange(1, 3).Draw(t, "sm2")
	p.Faults = cluster.Faults{LossPct: rapid.SampledFrom([]int{0, 20, 50}).Draw(t, "loss"), DupPct: 20, MinLatUs: 50,
		MaxLatUs: rapid.SampledFrom([]int{500, 200000}).Draw(t, "lat"), RefusePct: 10, CutPct: 20}
	p.DurMs = rapid.SampledFrom([]int{15000, 40000}).Draw(t, "dur")
	n := p.Conf.N
	p.Events = rapid.SliceOfN(rapid.Custom(func(t *rapid.T) CEv {
		return CEv{AtMs: rapid.IntRange(1000, p.DurMs-1000).Draw(t, "at"), Kind: rapid.SampledFrom([]string{"crash", "restart", "restart", "leave", "update", "update"}).Draw(t, "kind"),
			Node: rapid.IntRange(0, n-1).Draw(t, "node")}
	}), 0, 10).Draw(t, "events")
	sort.SliceStable(p.Events, func(i, j int) bool { return p.Events[i].AtMs < p.Events[j].AtMs })
	return p
}

func runCPlan(pl CPlan) (res vfx.Result) {
	synctest.Test(theT, func(t *testing.T) { res = runC(pl) })
	return
}

func runC(pl CPlan) (res vfx.Result) {
	labels := map[string]bool{}
	done := func() vfx.Result {
		for l := range labels {
			res.Labels = append(res.Labels, l)
		}
		sort.Strings(res.Labels)
		return res
	}
	fail := func(f string, a ...any) vfx.Result { res.Err = fmt.Errorf(f, a...); return done() }
	c := cluster.New(pl.Seed)
	defer c.ShutdownAll()
	cf := pl.Conf
	n := cf.N
	nodes := make([]*cluster.Node, n)
	for i := 0; i < n; i++ {
		nd, err := c.Start(cf.NodeConf(i))
		if err != nil {
			return fail("start: %v", err)
		}
		nodes[i] = nd
		if i > 0 {
			_, _ = nd.M.Join([]string{nodes[0].Addr()})
		}
	}
	c.SetFaults(pl.Faults, true)
	var wg sync.WaitGroup
	var mu sync.Mutex
	busy := make([]bool, n) // a lifecycle call is in flight on that node
	var finished []int      // leavers whose goroutine is done; the bookkeeping happens on this goroutine (race detector builds)
	applyFinished := func() {
		mu.Lock()
		defer mu.Unlock()
		for _, i := range finished {
			nodes[i].Running = false
			c.Net.Remove(nodes[i].EP)
			nodes[i].Left = false // the name may be restarted later
			busy[i] = false
		}
		finished = nil
	}
	ei := 0
	checks := 0
	for now := 0; now <= pl.DurMs; now += 500 {
		applyFinished()
		for ei < len(pl.Events) && pl.Events[ei].AtMs <= now {
			e := pl.Events[ei]
			ei++
			nd := nodes[e.Node]
			mu.Lock()
			b := busy[e.Node]
			mu.Unlock()
			if b {
				continue
			}
			switch e.Kind {
			case "crash":
				if nd.Running && !nd.Left {
					c.Crash(nd, false)
					labels["crash"] = true
				}
			case "restart":
				if !nd.Running {
					if err := c.Restart(nd); err != nil {
						return fail("restart: %v", err)
					}
					labels["restart"] = true
					mu.Lock()
					busy[e.Node] = true
					mu.Unlock()
					wg.Add(1)
					m := nd.M // read here, on the goroutine that owns the bookkeeping (race detector builds)
					go func(i int) {
						defer wg.Done()
						for try := 0; try < 5; try++ {
							k := (i + 1 + try) % n
							if k != i { // whether that node is up is the main loop's knowledge; a join towards a node that is down simply fails
								if _, err := m.Join([]string{nodes[k].Addr()}); err == nil {
									break
								}
							}
							time.Sleep(time.Second)
						}
						mu.Lock()
						busy[i] = false
						mu.Unlock()
					}(e.Node)
				}
			case "leave":
				if nd.Running && !nd.Left {
					nd.Left = true
					labels["leave"] = true
					mu.Lock()
					busy[e.Node] = true
					mu.Unlock()
					wg.Add(1)
					m := nd.M // read here: a later restart of the node replaces the field
					go func(i int) {
						defer wg.Done()
						_ = m.Leave(2 * time.Second)
						time.Sleep(300 * time.Millisecond)
						_ = m.Shutdown()
						mu.Lock()
						finished = append(finished, i)
						mu.Unlock()
					}(e.Node)
				}
			case "update":
				if nd.Running && !nd.Left {
					nd.Rec.SetMeta([]byte(fmt.Sprintf("m-%d-%d", e.Node, e.AtMs)))
					labels["update"] = true
					wg.Add(1)
					m := nd.M // as above
					go func() {
						defer wg.Done()
						_ = m.UpdateNode(time.Second)
					}()
				}
			}
		}
		time.Sleep(500 * time.Millisecond)
		c.Wait() // quiescent: nobody is in the middle of a state change
		applyFinished()
		for _, nd := range nodes {
			if nd.Running {
				if err := cluster.CheckEventLog(nd.M, nd.Rec, fmt.Sprintf("%s at %v", nd.Name(), c.Net.Now())); err != nil {
					return fail("%v", err)
				}
				checks++
			}
		}
	}
	c.SetFaults(cluster.Faults{}, false)
	wg.Wait()
	rejoin, upd := false, false
	for _, nd := range nodes {
		seenLeave := map[string]bool{}
		for _, e := range nd.Rec.Events() {
			switch e.Kind {
			case "leave":
				seenLeave[e.Name] = true
			case "join":
				rejoin = rejoin || seenLeave[e.Name]
			case "update":
				upd = true
			}
		}
	}
	if rejoin {
		labels["rejoin"] = true
	}
	if upd {
		labels["update-event"] = true
	}
	res.NonTrivial = rejoin || upd
	res.Sub = map[string]int64{"quiescent_checks": int64(checks)}
	return done()
}

func TestEventLogCluster(t *testing.T) {
	theT = t
	vfx.Check(t, genCPlan, runCPlan)
}
