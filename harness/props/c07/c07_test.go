// C07 — membership events are a serialized, faithful log of Members().
// Dedicated puppet histories (claims of every kind and relation, own timers,
// reaping, local UpdateNode / Leave); the same oracle is also attached to
// every cluster run of C03, C04 and C05.
package c07

import (
	"fmt"
	"sort"
	"testing"
	"testing/synctest"
	"time"

	"pgregory.net/rapid"

	"verif/harness/cluster"
	"verif/harness/puppet"
	"verif/harness/vfx"
)

func TestMain(m *testing.M) { vfx.Main(m) }

type Step struct {
	Kind    string // claim | sleep | update | leave
	Claim   string `json:",omitempty"`
	Subj    int    `json:",omitempty"`
	IncD    int    `json:",omitempty"` // incarnation = held + IncD (clamped at 0)
	AltAddr bool   `json:",omitempty"`
	Meta    int    `json:",omitempty"`
	From    int    `json:",omitempty"` // 0 peer, 1 subject itself, 2 local, 3 another subject
	Carrier string `json:",omitempty"`
	SleepMs int    `json:",omitempty"`
	Burst   int    `json:",omitempty"` // >1: several claims in one packet without settling in between
}

type Plan struct {
	Seed      uint64
	ReclaimMs int
	Silent    [4]bool
	Steps     []Step
}

var kinds = []string{"alive", "alive", "alive", "suspect", "dead", "left", "pp-alive", "pp-suspect", "pp-dead", "pp-left"}

func genPlan(t *rapid.T) Plan {
	p := Plan{Seed: rapid.Uint64Range(1, 1<<40).Draw(t, "seed"), ReclaimMs: rapid.SampledFrom([]int{0, 1500}).Draw(t, "reclaim")}
	for i := range p.Silent {
		p.Silent[i] = rapid.IntRange(0, 2).Draw(t, "silent") == 0
	}
	p.Steps = rapid.SliceOfN(rapid.Custom(func(t *rapid.T) Step {
		switch rapid.IntRange(0, 11).Draw(t, "k") {
		case 0, 1:
			return Step{Kind: "sleep", SleepMs: rapid.SampledFrom([]int{1, 200, 1000, 2100, 4200, 9000, 26000}).Draw(t, "ms")}
		case 2:
			return Step{Kind: "update", Meta: rapid.IntRange(0, 2).Draw(t, "meta")}
		}
		s := Step{Kind: "claim", Claim: rapid.SampledFrom(kinds).Draw(t, "claim"), Subj: rapid.SampledFrom([]int{0, 1, 2, 3, 0, 1, 2, 3, 4}).Draw(t, "subj"), // 4 = the node itself
			IncD: rapid.SampledFrom([]int{-1, 0, 0, 1, 1, 2}).Draw(t, "incd"), AltAddr: rapid.IntRange(0, 5).Draw(t, "alt") == 0,
			Meta: rapid.IntRange(0, 2).Draw(t, "meta"), From: rapid.IntRange(0, 3).Draw(t, "from")}
		if len(s.Claim) > 3 && s.Claim[:3] == "pp-" {
			s.Carrier = rapid.SampledFrom([]string{"pp", "pp-join"}).Draw(t, "car")
		} else {
			s.Carrier = rapid.SampledFrom([]string{"single", "compound", "compress"}).Draw(t, "car")
			s.Burst = rapid.SampledFrom([]int{1, 1, 2, 4}).Draw(t, "burst")
		}
		return s
	}), 1, 16).Draw(t, "steps")
	switch rapid.IntRange(0, 5).Draw(t, "leave") {
	case 0, 1:
		p.Steps = append(p.Steps, Step{Kind: "leave"}, Step{Kind: "sleep", SleepMs: rapid.SampledFrom([]int{100, 3000}).Draw(t, "after")})
	case 2:
		// the node leaves in the middle and keeps running: claims (also about itself) keep arriving
		at := rapid.IntRange(0, len(p.Steps)).Draw(t, "leaveat")
		p.Steps = append(p.Steps[:at:at], append([]Step{{Kind: "leave"}}, p.Steps[at:]...)...)
	}
	return p
}

var theT *testing.T

func runPlan(pl Plan) (res vfx.Result) {
	synctest.Test(theT, func(t *testing.T) { res = run(pl) })
	return
}

func run(pl Plan) (res vfx.Result) {
	labels := map[string]bool{}
	var hist []string
	done := func() vfx.Result {
		res.History = hist
		for l := range labels {
			res.Labels = append(res.Labels, l)
		}
		sort.Strings(res.Labels)
		return res
	}
	fail := func(f string, a ...any) vfx.Result { res.Err = fmt.Errorf(f, a...); return done() }
	conf := puppet.NodeConf{Name: "n0", IP: "10.0.0.1", Port: 7946, IndirectChecks: 2, ReclaimMs: pl.ReclaimMs, GossipToDeadMs: 2000, SuspicionMult: 2, SuspicionMaxMult: 2, Meta: []byte("own0")}
	p, err := puppet.New(pl.Seed, conf)
	if err != nil {
		return fail("create: %v", err)
	}
	defer func() { p.Shutdown(); time.Sleep(20 * time.Second) }()
	vsn := []uint8{1, 5, 2, 0, 0, 0}
	h := p.AddPeer("h1", "10.0.0.9", 7946, vsn)
	p.Inject(h.Addr(), [][]byte{puppet.Claim{Kind: "alive", Node: "h1", Inc: 1, Addr: h.IPBytes(), Port: 7946, Vsn: vsn}.Leaf()}, puppet.Carrier{})
	var subj []*puppet.Peer
	for i := 0; i < 4; i++ {
		s := p.AddPeer(fmt.Sprintf("x%d", i), fmt.Sprintf("10.0.0.%d", 11+i), 7946, vsn)
		s.AckPings, s.AckTCP = !pl.Silent[i], !pl.Silent[i]
		subj = append(subj, s)
	}
	metas := [][]byte{[]byte("m0"), []byte("m1"), nil}
	check := func(where string) error {
		if err := cluster.CheckEventLog(p.M, p.Rec, "n0"); err != nil {
			return fmt.Errorf("%s: %v", where, err)
		}
		return nil
	}
	if err := check("after setup"); err != nil {
		return fail("%v", err)
	}
	left := false
	for i, st := range pl.Steps {
		where := fmt.Sprintf("step %d %s", i, st.Kind)
		switch st.Kind {
		case "sleep":
			time.Sleep(time.Duration(st.SleepMs) * time.Millisecond)
			p.Settle()
		case "update":
			if left {
				continue
			}
			p.Rec.SetMeta(append([]byte("own"), byte('0'+st.Meta)))
			if err := p.M.UpdateNode(5 * time.Second); err != nil {
				return fail("%s: %v", where, err)
			}
			p.Settle()
			labels["update"] = true
		case "leave":
			if err := p.M.Leave(3 * time.Second); err != nil {
				hist = append(hist, fmt.Sprintf("Leave -> %v", err))
			}
			left = true
			p.Settle()
			labels["leave"] = true
		case "claim":
			var s *puppet.Peer
			if st.Subj == 4 {
				s = &puppet.Peer{Name: "n0", IP: "10.0.0.1", Port: 7946}
				labels["claim-about-self"] = true
				if left {
					labels["claim-about-self-after-leave"] = true
				}
			} else {
				s = subj[st.Subj]
			}
			d, err := p.Dump()
			if err != nil {
				if left {
					continue
				}
				return fail("%s: %v", where, err)
			}
			held := int64(0)
			if r, ok := d[s.Name]; ok {
				held = int64(r.Inc)
			}
			mk := func(delta int) puppet.Claim {
				inc := held + int64(st.IncD+delta)
				if inc < 0 {
					inc = 0
				}
				c := puppet.Claim{Kind: st.Claim, Node: s.Name, Inc: uint32(inc), Addr: s.IPBytes(), Port: 7946, Meta: metas[(st.Meta+delta)%3], Vsn: vsn}
				if st.AltAddr {
					c.Addr = []byte{10, 0, 0, byte(111 + st.Subj)}
				}
				switch st.From {
				case 0:
					c.From = "h1"
				case 1:
					c.From = s.Name
				case 2:
					c.From = "n0"
				default:
					c.From = subj[(st.Subj+1)%4].Name
				}
				if c.Kind == "left" {
					c.From = s.Name
				}
				return c
			}
			c := mk(0)
			where += " " + c.String()
			if c.IsPP() {
				_ = p.InjectClaim(c, puppet.Carrier{Kind: st.Carrier}, h.Addr(), h.EP)
			} else if st.Burst > 1 {
				var parts [][]byte
				for b := 0; b < st.Burst; b++ {
					parts = append(parts, mk(b).Leaf())
				}
				p.Inject(h.Addr(), parts, puppet.Carrier{Kind: "compound"})
				labels["burst"] = true
			} else {
				p.Inject(h.Addr(), [][]byte{c.Leaf()}, puppet.Carrier{Kind: st.Carrier})
			}
		}
		if err := check(where); err != nil {
			return fail("%v", err)
		}
		hist = append(hist, fmt.Sprintf("%s -> members %v", where, p.MemberNames()))
	}
	// non-trivial: some member left and re-joined, or an update was delivered
	seenLeave := map[string]bool{}
	for _, e := range p.Rec.Events() {
		switch e.Kind {
		case "leave":
			seenLeave[e.Name] = true
		case "join":
			if seenLeave[e.Name] {
				res.NonTrivial = true
				labels["rejoin"] = true
			}
		case "update":
			res.NonTrivial = true
			labels["update-event"] = true
		}
	}
	res.Sub = map[string]int64{"events": int64(p.Rec.Len())}
	return done()
}

func TestEventLog(t *testing.T) {
	theT = t
	vfx.Check(t, genPlan, runPlan)
}
