// Package vfx is the glue between the property checks (rapid / native fuzz /
// enumeration) and the vf driver: per-case statistics, non-trivial case
// hashing, samples, replay files, the crash journal and known findings.
//
// Everything a check reports goes through a Recorder; TestMain calls
// vfx.Main(m) which writes the shard's statistics to $VF_STATS at exit.
package vfx

import (
	"encoding/json"
	"fmt"
	"hash/fnv"
	"os"
	"path/filepath"
	"runtime"
	"runtime/debug"
	"sort"
	"strconv"
	"strings"
	"sync"
	"testing"
	"time"

	"pgregory.net/rapid"
)

// Result is what one executed case reports.
type Result struct {
	// Err is an oracle failure (a violation of the property on this case).
	Err error
	// Labels classify the case; each is counted once per case.
	Labels []string
	// NonTrivial says whether the case satisfies the property's stated
	// non-triviality rule.
	NonTrivial bool
	// Key is the canonical form of the case used to count distinct
	// non-trivial cases; empty means "JSON of the plan".
	Key string
	// NTKeys lists several distinct non-trivial sub-cases inside one executed
	// case (e.g. one per injected claim); each is hashed into the distinct
	// set. When set, Key is ignored for the distinct count.
	NTKeys []string
	// PrecondFalse marks cases whose evaluated precondition was false (the
	// property says nothing about them).
	PrecondFalse bool
	// Known is set (to the finding id) when the case was recognised as a
	// listed known finding and excluded; it is counted, not failed.
	Known string
	// History is an optional abridged trace kept in samples/replay files.
	History []string
	// Sub carries optional counters for sub-records (added up).
	Sub map[string]int64
}

// Violation is one reported oracle failure.
type Violation struct {
	Test   string `json:"test"`
	Replay string `json:"replay"`
	Msg    string `json:"msg"`
}

// Stats is the per-shard statistics file.
type Stats struct {
	Test          string            `json:"test"`
	Evaluations   int64             `json:"evaluations"`
	NonTrivial    int64             `json:"nontrivial"`
	Hashes        []string          `json:"hashes"`
	Labels        map[string]int64  `json:"labels"`
	Samples       []json.RawMessage `json:"samples"`
	PrecondFalse  int64             `json:"precondition_false"`
	ExcludedKnown map[string]int64  `json:"excluded_known"`
	Sub           map[string]int64  `json:"sub"`
	Violations    []Violation       `json:"violations"`
	Known         []string          `json:"known_findings_reproduced"`
	Exhaustive    map[string]bool   `json:"exhaustive"`
	Notes         []string          `json:"notes"`
}

var (
	mu      sync.Mutex
	all     = map[string]*Stats{}
	hashSet = map[string]map[uint64]struct{}{}
	order   []string
)

const maxSamples = 4
const maxHashes = 400000

func get(test string) *Stats {
	s, ok := all[test]
	if !ok {
		s = &Stats{Test: test, Labels: map[string]int64{}, ExcludedKnown: map[string]int64{}, Sub: map[string]int64{}, Exhaustive: map[string]bool{}}
		all[test] = s
		hashSet[test] = map[uint64]struct{}{}
		order = append(order, test)
	}
	return s
}

func hash64(s string) uint64 {
	h := fnv.New64a()
	_, _ = h.Write([]byte(s))
	return h.Sum64()
}

// Env helpers ---------------------------------------------------------------

// Tier returns "quick" or "thorough".
func Tier() string {
	if os.Getenv("VF_TIER") == "thorough" {
		return "thorough"
	}
	return "quick"
}

// Thorough reports whether the thorough tier is running.
func Thorough() bool { return Tier() == "thorough" }

// Shard returns this process's shard index and the number of shards.
func Shard() (int, int) {
	k, _ := strconv.Atoi(os.Getenv("VF_SHARD"))
	n, _ := strconv.Atoi(os.Getenv("VF_NSHARDS"))
	if n <= 0 {
		n = 1
	}
	return k, n
}

// Seed returns the base seed of the run (VERIF_SEED remapped, never 0).
func Seed() uint64 {
	v, _ := strconv.ParseUint(os.Getenv("VF_SEED"), 10, 64)
	if v == 0 {
		v = 1
	}
	return v
}

// EnvInt reads an integer knob with a default.
func EnvInt(name string, def int) int {
	if v, err := strconv.Atoi(os.Getenv(name)); err == nil {
		return v
	}
	return def
}

// Known findings ------------------------------------------------------------

// Finding mirrors an entry of /verif/known_findings.json.
type Finding struct {
	Property    string `json:"property"`
	ID          string `json:"id"`
	Status      string `json:"status"` // "known" or "fixed"
	Signature   string `json:"signature"`
	Description string `json:"description"`
	Commit      string `json:"commit,omitempty"`
}

var (
	findingsOnce sync.Once
	findings     []Finding
)

// Findings loads the committed known-findings file (read-only).
func Findings() []Finding {
	findingsOnce.Do(func() {
		p := os.Getenv("VF_KNOWN")
		if p == "" {
			return
		}
		b, err := os.ReadFile(p)
		if err != nil {
			return
		}
		var f struct {
			Findings []Finding `json:"findings"`
		}
		if json.Unmarshal(b, &f) == nil {
			findings = f.Findings
		}
	})
	return findings
}

// IsKnown says whether a finding id is listed with status "known" (a "fixed"
// entry suppresses nothing).
func IsKnown(id string) bool {
	for _, f := range Findings() {
		if f.ID == id && f.Status == "known" {
			return true
		}
	}
	return false
}

// ReportKnown records that a listed known finding was re-demonstrated on this
// tree; the driver prints the KNOWN-FINDING line.
func ReportKnown(test, id, what string) {
	mu.Lock()
	defer mu.Unlock()
	s := get(test)
	s.Known = append(s.Known, id+" "+what)
}

// Note attaches a free-text note to the shard statistics.
func Note(test, format string, a ...any) {
	mu.Lock()
	defer mu.Unlock()
	s := get(test)
	if len(s.Notes) < 50 {
		s.Notes = append(s.Notes, fmt.Sprintf(format, a...))
	}
}

// SetExhaustive marks a sub-run as having enumerated its finite domain.
func SetExhaustive(test, sub string) {
	mu.Lock()
	defer mu.Unlock()
	get(test).Exhaustive[sub] = true
}

// Recording -----------------------------------------------------------------

// Record adds one case's result to the statistics of test.
func Record(test string, plan any, r Result) {
	key := r.Key
	var planJSON []byte
	if key == "" || r.Err != nil {
		planJSON, _ = json.Marshal(plan)
	}
	if key == "" {
		key = string(planJSON)
	}
	mu.Lock()
	defer mu.Unlock()
	s := get(test)
	s.Evaluations++
	for _, l := range r.Labels {
		s.Labels[l]++
	}
	for k, v := range r.Sub {
		s.Sub[k] += v
	}
	if r.PrecondFalse {
		s.PrecondFalse++
	}
	if r.Known != "" {
		s.ExcludedKnown[r.Known]++
	}
	if r.NonTrivial {
		s.NonTrivial++
		hs := hashSet[test]
		if len(r.NTKeys) > 0 {
			for _, k := range r.NTKeys {
				if len(hs) < maxHashes {
					hs[hash64(k)] = struct{}{}
				}
			}
		} else if len(hs) < maxHashes {
			hs[hash64(key)] = struct{}{}
		}
		if len(s.Samples) < maxSamples {
			if planJSON == nil {
				planJSON, _ = json.Marshal(plan)
			}
			smp := map[string]any{"plan": json.RawMessage(planJSON), "labels": r.Labels}
			if len(r.History) > 0 {
				h := r.History
				if len(h) > 40 {
					h = append(append([]string{}, h[:20]...), append([]string{fmt.Sprintf("... %d lines ...", len(h)-40)}, h[len(h)-20:]...)...)
				}
				smp["history"] = h
			}
			b, _ := json.Marshal(smp)
			if len(b) > 6000 {
				b, _ = json.Marshal(map[string]any{"plan_abridged": string(planJSON[:min(len(planJSON), 3000)]), "labels": r.Labels})
			}
			s.Samples = append(s.Samples, b)
		}
	}
}

// ReplayFile is the format of a replay file.
type ReplayFile struct {
	Property string          `json:"property"`
	Test     string          `json:"test"`
	Seed     uint64          `json:"seed"`
	Shard    int             `json:"shard"`
	Error    string          `json:"error"`
	Plan     json.RawMessage `json:"plan"`
	History  []string        `json:"history,omitempty"`
}

func replayDir() string {
	d := os.Getenv("VF_REPLAY_DIR")
	if d == "" {
		d = os.TempDir()
	}
	_ = os.MkdirAll(d, 0o755)
	return d
}

// WriteReplay writes (overwriting) the replay file of a failing case and
// records the violation. During rapid shrinking it is called repeatedly; the
// last call is the minimal case.
func WriteReplay(test string, plan any, r Result) string {
	k, _ := Shard()
	b, _ := json.Marshal(plan)
	rf := ReplayFile{Property: os.Getenv("VF_PROPERTY"), Test: test, Seed: Seed(), Shard: k, Error: r.Err.Error(), Plan: b, History: r.History}
	out, _ := json.MarshalIndent(rf, "", " ")
	p := filepath.Join(replayDir(), fmt.Sprintf("%s-seed%d-shard%d.json", sanitize(test), Seed(), k))
	_ = os.WriteFile(p, out, 0o644)
	mu.Lock()
	s := get(test)
	msg := r.Err.Error()
	if len(msg) > 600 {
		msg = msg[:600] + "..."
	}
	found := false
	for i := range s.Violations {
		if s.Violations[i].Replay == p {
			s.Violations[i].Msg = msg
			found = true
		}
	}
	if !found {
		s.Violations = append(s.Violations, Violation{Test: test, Replay: p, Msg: msg})
	}
	mu.Unlock()
	flush()
	return p
}

func sanitize(s string) string {
	return strings.Map(func(r rune) rune {
		if r == '/' || r == ' ' || r == '#' {
			return '_'
		}
		return r
	}, s)
}

// Journal writes the case about to run so that a crash of the test binary
// on a goroutine no recover can reach is attributable to it.
func Journal(test string, plan any) {
	p := os.Getenv("VF_JOURNAL")
	if p == "" {
		return
	}
	b, _ := json.Marshal(plan)
	k, _ := Shard()
	rf := ReplayFile{Property: os.Getenv("VF_PROPERTY"), Test: test, Seed: Seed(), Shard: k, Error: "process crashed while running this case", Plan: b}
	out, _ := json.Marshal(rf)
	_ = os.WriteFile(p, out, 0o644)
}

// LoadReplay loads the plan of a replay file into plan if VF_REPLAY is set and
// names this test.
func LoadReplay(test string, plan any) (bool, error) {
	p := os.Getenv("VF_REPLAY")
	if p == "" {
		return false, nil
	}
	b, err := os.ReadFile(p)
	if err != nil {
		return false, err
	}
	var rf ReplayFile
	if err := json.Unmarshal(b, &rf); err != nil {
		return false, err
	}
	if rf.Test != test {
		return false, nil
	}
	return true, json.Unmarshal(rf.Plan, plan)
}

// Replaying reports whether the process runs in replay mode.
func Replaying() bool { return os.Getenv("VF_REPLAY") != "" }

// Guard runs f and converts a panic on the calling goroutine into an error.
func Guard(f func() error) (err error) {
	defer func() {
		if r := recover(); r != nil {
			err = fmt.Errorf("panic: %v\n%s", r, trimStack(debug.Stack()))
			if strings.Contains(fmt.Sprint(r), "blocked goroutines remain") {
				// the panic does not say which goroutines: list those that are parked inside the bubble
				buf := make([]byte, 4<<20)
				buf = buf[:runtime.Stack(buf, true)]
				var keep []string
				for _, g := range strings.Split(string(buf), "\n\n") {
					if strings.Contains(g, "synctest") && !strings.Contains(g, "[running]") {
						// function names only, innermost frames of the library dropped
						var fr []string
						for _, l := range strings.Split(g, "\n") {
							if !strings.HasPrefix(l, "\t") && !strings.Contains(l, "go-msgpack") {
								if i := strings.LastIndex(l, "("); i > 0 && !strings.HasPrefix(l, "goroutine") && !strings.HasPrefix(l, "created by") {
									l = l[:i]
								}
								fr = append(fr, l)
							}
						}
						keep = append(keep, trimStackN(strings.Join(fr, "\n"), 40))
					}
				}
				err = fmt.Errorf("%v\nBLOCKED IN THE BUBBLE (%d):\n%s", err, len(keep), strings.Join(keep, "\n\n"))
			}
		}
	}()
	return f()
}

func trimStackN(g string, n int) string {
	lines := strings.Split(g, "\n")
	if len(lines) > n {
		lines = lines[:n]
	}
	return strings.Join(lines, "\n")
}

func trimStack(b []byte) string {
	lines := strings.Split(string(b), "\n")
	if len(lines) > 40 {
		lines = lines[:40]
	}
	return strings.Join(lines, "\n")
}

// Check is the standard rapid loop for a plan-based property: gen draws a
// plan (pure data), run executes it. A failing case is written as a replay
// file; in replay mode the plan comes from the file and rapid is bypassed.
func Check[P any](t *testing.T, gen func(*rapid.T) P, run func(P) Result) {
	test := t.Name()
	if Replaying() {
		var p P
		ok, err := LoadReplay(test, &p)
		if err != nil {
			t.Fatalf("cannot load replay: %v", err)
		}
		if !ok {
			t.Skip("replay file is for another test")
		}
		reps := EnvInt("VF_REPLAY_REPS", 1)
		for i := 0; i < reps; i++ {
			r := runGuarded(run, p)
			Record(test, p, r)
			if r.Err != nil {
				path := WriteReplay(test, p, r)
				fmt.Printf("VF-REPRODUCED test=%s replay=%s\n%s\n", test, path, r.Err)
				t.Fatalf("reproduced: %v", r.Err)
			}
		}
		fmt.Printf("VF-NOT-REPRODUCED test=%s after %d attempts\n", test, reps)
		return
	}
	mu.Lock()
	get(test)
	mu.Unlock()
	rapid.Check(t, func(rt *rapid.T) {
		p := gen(rt)
		Journal(test, p)
		stop := watchdog(test, p)
		r := runGuarded(run, p)
		stop()
		Record(test, p, r)
		if r.Err != nil {
			path := WriteReplay(test, p, r)
			rt.Fatalf("VF-FAIL replay=%s: %v", path, r.Err)
		}
	})
}

// runGuarded runs one case. A bubble that cannot end because goroutines inside it are blocked for ever (synctest
// panics with "deadlock: ...") is a finding about the node under test, not a crash of the harness: it is turned into a
// failed case that lists the blocked goroutines. Any other panic on the test goroutine is passed on.
func runGuarded[P any](run func(P) Result, p P) (res Result) {
	defer func() {
		r := recover()
		if r == nil {
			return
		}
		msg := fmt.Sprint(r)
		if !strings.Contains(msg, "deadlock:") || (!strings.Contains(msg, "blocked goroutines remain") && !strings.Contains(msg, "goroutines in bubble are blocked")) {
			panic(r)
		}
		buf := make([]byte, 8<<20)
		buf = buf[:runtime.Stack(buf, true)]
		var keep []string
		for _, g := range strings.Split(string(buf), "\n\n") {
			head, _, _ := strings.Cut(g, "\n")
			if !strings.Contains(head, "synctest bubble") || strings.Contains(head, "[running]") {
				continue
			}
			var fr []string
			for _, l := range strings.Split(g, "\n") {
				if strings.HasPrefix(l, "\t") || strings.Contains(l, "go-msgpack") {
					continue
				}
				if i := strings.LastIndex(l, "("); i > 0 && !strings.HasPrefix(l, "goroutine") && !strings.HasPrefix(l, "created by") {
					l = l[:i]
				}
				fr = append(fr, l)
			}
			keep = append(keep, trimStackN(strings.Join(fr, "\n"), 24))
			if len(keep) >= 12 {
				break
			}
		}
		res = Result{Err: fmt.Errorf("the case could not end: %s\nblocked for ever inside the bubble (%d shown):\n%s", msg, len(keep), strings.Join(keep, "\n\n"))}
	}()
	return run(p)
}

// watchdog guards one case against a frozen bubble. Virtual time cannot advance while a goroutine of the bubble waits
// for a mutex, so a lock that is never released (a self-deadlock inside the node, say) does not end the case: it stops
// the whole process until the driver's time budget runs out. After VF_CASE_WALL seconds of wall-clock time (default
// 150; cases take seconds) the goroutines are listed, and if a goroutine of the bubble has been waiting for a mutex
// inside memberlist for more than a minute while no membership callback of the harness is parked under the node lock,
// the case is reported as a deadlock (replay file, stats, exit). Anything else is left to the time budget (inconclusive).
func watchdog[P any](test string, p P) (stop func()) {
	limit := time.Duration(EnvInt("VF_CASE_WALL", 150)) * time.Second
	done := make(chan struct{})
	go func() {
		for {
			select {
			case <-done:
				return
			case <-time.After(limit):
			}
			buf := make([]byte, 16<<20)
			buf = buf[:runtime.Stack(buf, true)]
			var stuck []string
			held := false
			for _, g := range strings.Split(string(buf), "\n\n") {
				head, _, _ := strings.Cut(g, "\n")
				if !strings.Contains(head, "synctest bubble") {
					continue
				}
				if strings.Contains(g, "puppet.(*Recorder).event") && strings.Contains(head, "chan receive") {
					held = true
				}
				if (strings.Contains(head, "sync.Mutex.Lock") || strings.Contains(head, "sync.RWMutex.")) && strings.Contains(head, "minutes") &&
					strings.Contains(g, "github.com/hashicorp/memberlist.") {
					var fr []string
					for _, l := range strings.Split(g, "\n") {
						if strings.HasPrefix(l, "\t") {
							continue
						}
						if i := strings.LastIndex(l, "("); i > 0 && !strings.HasPrefix(l, "goroutine") && !strings.HasPrefix(l, "created by") {
							l = l[:i]
						}
						fr = append(fr, l)
					}
					stuck = append(stuck, trimStackN(strings.Join(fr, "\n"), 30))
				}
			}
			if len(stuck) == 0 || held {
				fmt.Printf("VF-WATCHDOG test=%s: case running for %v of wall-clock time (no mutex deadlock inside the node recognised)\n", test, limit)
				continue
			}
			r := Result{Err: fmt.Errorf("deadlock: the case froze (virtual time cannot advance) with %d goroutine(s) of the node waiting for a mutex for more than a minute and nothing running:\n%s", len(stuck), strings.Join(stuck, "\n\n"))}
			Record(test, p, r)
			path := WriteReplay(test, p, r)
			fmt.Printf("VF-FAIL replay=%s: %v\n", path, r.Err)
			flush()
			os.Exit(1)
		}
	}()
	return func() { close(done) }
}

// CheckCase records a directly executed (enumerated or regression) case.
func CheckCase[P any](t *testing.T, p P, r Result) { CheckCaseAs(t, t.Name(), p, r) }

// CheckCaseAs is CheckCase with the replay file attributed to another test
// (one whose vfx.Check loop takes the same plan type), so that it can be replayed.
func CheckCaseAs[P any](t *testing.T, test string, p P, r Result) {
	Record(test, p, r)
	if r.Err != nil {
		path := WriteReplay(test, p, r)
		t.Errorf("VF-FAIL replay=%s: %v", path, r.Err)
	}
}

func flush() {
	p := os.Getenv("VF_STATS")
	if p == "" {
		return
	}
	mu.Lock()
	defer mu.Unlock()
	var out []*Stats
	for _, name := range order {
		s := all[name]
		hs := hashSet[name]
		s.Hashes = s.Hashes[:0]
		for h := range hs {
			s.Hashes = append(s.Hashes, strconv.FormatUint(h, 16))
		}
		sort.Strings(s.Hashes)
		out = append(out, s)
	}
	b, _ := json.Marshal(out)
	tmp := p + ".tmp"
	if os.WriteFile(tmp, b, 0o644) == nil {
		_ = os.Rename(tmp, p)
	}
}

// Main wraps testing.M so that statistics are written at exit.
func Main(m *testing.M) {
	code := m.Run()
	flush()
	os.Exit(code)
}

// Errorf builds an oracle-failure result quickly.
func Errorf(format string, a ...any) error { return fmt.Errorf(format, a...) }
