// Package hostile holds what the byte-level properties (C13, C14) share: a
// populated puppet, a corpus of genuine messages of every type, outcome
// capture and a lenient claim extractor.
package hostile

import (
	"fmt"
	"sort"
	"strings"
	"time"

	"verif/harness/puppet"
	"verif/harness/simnet"
	"verif/harness/wire"
)

var Vsn = []uint8{1, 5, 2, 0, 0, 0}

// Cfg is the JSON-able security configuration of the receiver.
type Cfg struct {
	Label    string `json:",omitempty"`
	Encrypt  bool   `json:",omitempty"`
	NoVerify bool   `json:",omitempty"` // GossipVerifyIncoming off
	PV       uint8  `json:",omitempty"`
	Skip     bool   `json:",omitempty"` // SkipInboundLabelCheck: inbound traffic carries no header (an outer layer removed it); the label is still the associated data
	LateKey  bool   `json:",omitempty"` // the node is created with an empty keyring; the keys are installed at run time, before anything is delivered
}

var KeyA = []byte("0123456789abcdef")
var KeyB = []byte("fedcba9876543210fedcba9876543210")
var KeyC = []byte("c0c1c2c3c4c5c6c7c8c9cacb")
var KeyForeign = []byte("ffffffffffffffffffffffff")

// World is one real node with two known members and an unknown sender.
type World struct {
	P       *puppet.Puppet
	M1, M2  *puppet.Peer
	Att     *simnet.Endpoint // the sender's endpoint (not a member)
	AttAddr string
	Cfg     Cfg
}

type attHandler struct{}

func (attHandler) OnPacket(*simnet.Endpoint, string, []byte)             {}
func (attHandler) OnStream(_ *simnet.Endpoint, _ string, c *simnet.Conn) { c.Close() }

// NewWorld builds the node and its view. Must run in a bubble.
func NewWorld(seed uint64, cfg Cfg) (*World, error) {
	conf := puppet.NodeConf{Name: "n0", IP: "10.0.0.1", Port: 7946, IndirectChecks: 1, Label: cfg.Label, SkipLabel: cfg.Skip, ProtocolVersion: cfg.PV,
		NoVerifyIn: cfg.NoVerify, GossipIntervalMs: 100, ProbeIntervalMs: 1000, ProbeTimeoutMs: 300, TCPTimeoutMs: 2000, Meta: []byte("n0meta"), WithPing: true}
	if cfg.Encrypt {
		conf.Keys = [][]byte{KeyA, KeyB, KeyC} // primary, a middle one and a last one
	}
	if cfg.Encrypt && cfg.LateKey {
		conf.Keys, conf.EmptyKeyring = nil, true
	}
	p, err := puppet.New(seed, conf)
	if err != nil {
		return nil, err
	}
	if cfg.Encrypt && cfg.LateKey {
		// from here on the node is keyed exactly like one that had its keys at creation, and must behave like one
		kr := p.MC.Keyring
		for _, k := range [][]byte{KeyA, KeyB, KeyC} {
			if err := kr.AddKey(k); err != nil {
				return nil, err
			}
		}
		if err := kr.UseKey(KeyA); err != nil {
			return nil, err
		}
		p.Conf.Keys = [][]byte{KeyA, KeyB, KeyC}
		p.Codec = p.Conf.Codec()
	}
	w := &World{P: p, Cfg: cfg, AttAddr: "10.0.0.66:7946"}
	w.M1 = p.AddPeer("m1", "10.0.0.11", 7946, Vsn)
	w.M2 = p.AddPeer("m2", "10.0.0.12", 7946, Vsn)
	w.Att = p.Net.NewEndpoint("10.0.0.66", 7946, attHandler{})
	p.Inject(w.M1.Addr(), [][]byte{
		puppet.Claim{Kind: "alive", Node: "m1", Inc: 3, Addr: w.M1.IPBytes(), Port: 7946, Meta: []byte("m1meta"), Vsn: Vsn}.Leaf(),
		puppet.Claim{Kind: "alive", Node: "m2", Inc: 3, Addr: w.M2.IPBytes(), Port: 7946, Meta: []byte("m2meta"), Vsn: Vsn}.Leaf(),
	}, puppet.Carrier{Kind: "compound"})
	// let the initial broadcasts drain so that later traffic is attributable
	time.Sleep(600 * time.Millisecond)
	p.Settle()
	return w, nil
}

func (w *World) Close() {
	w.P.Shutdown()
	time.Sleep(20 * time.Second)
}

// Genuine is one well-formed plaintext message.
type Genuine struct {
	Name   string
	Stream bool
	Plain  []byte
}

// Corpus returns one genuine message of every type. Each has a visible
// effect on a fresh World (a reply to the sender, a table change or a
// delegate callback).
func Corpus() []Genuine {
	alive := func(name string, inc uint32, meta string) []byte {
		return puppet.Claim{Kind: "alive", Node: name, Inc: inc, Addr: []byte{10, 0, 0, 77}, Port: 7946, Meta: []byte(meta), Vsn: Vsn}.Leaf()
	}
	g := []Genuine{
		{Name: "ping", Plain: wire.Encode(wire.PingMsg, &wire.Ping{SeqNo: 4242, Node: "n0", SourceAddr: []byte{10, 0, 0, 66}, SourcePort: 7946, SourceNode: "att"})},
		{Name: "ping-anon", Plain: wire.Encode(wire.PingMsg, &wire.Ping{SeqNo: 17})},
		{Name: "indirect", Plain: wire.Encode(wire.IndirectPingMsg, &wire.IndirectPing{SeqNo: 5151, Target: []byte{10, 0, 0, 11}, Port: 7946, Node: "m1", Nack: true, SourceAddr: []byte{10, 0, 0, 66}, SourcePort: 7946, SourceNode: "att"})},
		{Name: "ack", Plain: wire.Encode(wire.AckRespMsg, &wire.Ack{SeqNo: 1, Payload: []byte("pl")})},
		{Name: "nack", Plain: wire.Encode(wire.NackRespMsg, &wire.Nack{SeqNo: 1})},
		{Name: "alive-new", Plain: alive("newbie", 1, "hello")},
		{Name: "alive-m1-newer", Plain: puppet.Claim{Kind: "alive", Node: "m1", Inc: 9, Addr: []byte{10, 0, 0, 11}, Port: 7946, Meta: []byte("changed"), Vsn: Vsn}.Leaf()},
		{Name: "suspect-m1", Plain: puppet.Claim{Kind: "suspect", Node: "m1", Inc: 3, From: "m2"}.Leaf()},
		{Name: "dead-m2", Plain: puppet.Claim{Kind: "dead", Node: "m2", Inc: 3, From: "m1"}.Leaf()},
		{Name: "leave-m2", Plain: puppet.Claim{Kind: "left", Node: "m2", Inc: 4}.Leaf()},
		{Name: "suspect-self", Plain: puppet.Claim{Kind: "suspect", Node: "n0", Inc: 1, From: "m1"}.Leaf()},
		{Name: "user", Plain: append([]byte{wire.UserMsg}, []byte("user-payload-0123456789")...)},
		{Name: "compound", Plain: wire.Compound([][]byte{alive("c1", 1, "x"), append([]byte{wire.UserMsg}, []byte("inner-user")...), wire.Encode(wire.PingMsg, &wire.Ping{SeqNo: 99, Node: "n0"})})},
		{Name: "compress", Plain: wire.CompressWrap(alive("z1", 2, strings.Repeat("z", 60)))},
		{Name: "compress-compound", Plain: wire.CompressWrap(wire.Compound([][]byte{alive("zc", 1, ""), puppet.Claim{Kind: "suspect", Node: "m1", Inc: 3, From: "zc"}.Leaf()}))},
		{Name: "crc-alive", Plain: wire.CRCWrap(alive("crcnode", 1, "c"))},
		{Name: "s-pushpull-join", Stream: true, Plain: wire.PushPull(true, []wire.PushNodeState{
			{Name: "pp1", Addr: []byte{10, 0, 0, 88}, Port: 7946, Meta: []byte("ppm"), Incarnation: 2, State: wire.StateAlive, Vsn: Vsn},
			{Name: "m1", Addr: []byte{10, 0, 0, 11}, Port: 7946, Meta: []byte("m1meta"), Incarnation: 3, State: wire.StateDead, Vsn: Vsn},
		}, []byte("remote-user-state"))},
		{Name: "s-pushpull", Stream: true, Plain: wire.PushPull(false, []wire.PushNodeState{
			{Name: "pp2", Addr: []byte{10, 0, 0, 89}, Port: 7946, Incarnation: 1, State: wire.StateAlive, Vsn: Vsn},
		}, nil)},
		{Name: "s-user", Stream: true, Plain: wire.UserStream([]byte("reliable-user-payload"))},
		{Name: "s-ping", Stream: true, Plain: wire.Encode(wire.PingMsg, &wire.Ping{SeqNo: 777, Node: "n0"})},
		// block-aligned plaintexts (32 bytes) whose last byte looks like a pad length
		{Name: "user-aligned-badpad", Plain: append(append([]byte{wire.UserMsg}, []byte("transfer=1000;account=1234567;")[:29]...), 0x00, 0x05)},
		{Name: "user-aligned-goodpad", Plain: append(append([]byte{wire.UserMsg}, []byte("transfer=1000;account=12345;")[:27]...), 4, 4, 4, 4)},
		{Name: "s-user-aligned-badpad", Stream: true, Plain: wire.UserStream(append([]byte("0123456789abcdef"), 0x00, 0x03))},
		{Name: "s-compress-pushpull", Stream: true, Plain: wire.CompressWrap(wire.PushPull(false, []wire.PushNodeState{
			{Name: "pp3", Addr: []byte{10, 0, 0, 90}, Port: 7946, Incarnation: 1, State: wire.StateAlive, Vsn: Vsn},
		}, []byte("us")))},
	}
	return g
}

// Seal applies the receiver's outer layers to a plaintext: encryption under
// key (nil = none) with version vsn and associated label aad, then the label
// header hdr ("" = none). Stream messages get the stream frame.
func (w *World) Seal(plain []byte, stream bool, key []byte, vsn byte, aad, hdr string) []byte {
	b := plain
	if key != nil {
		if stream {
			b = wire.StreamSeal(vsn, key, w.P.Nonce(), plain, aad)
		} else {
			b = wire.Seal(vsn, key, w.P.Nonce(), plain, []byte(aad))
		}
	}
	return wire.LabelWrap(b, hdr)
}

// SealDefault seals the way a legitimate peer of this node would.
func (w *World) SealDefault(plain []byte, stream bool) []byte {
	var key []byte
	if w.Cfg.Encrypt {
		key = KeyA
	}
	vsn := byte(1)
	if w.Cfg.PV == 1 {
		vsn = 0
	}
	return w.Seal(plain, stream, key, vsn, w.Cfg.Label, w.Cfg.Label)
}

// Outcome is what a delivery did, in comparable form.
type Outcome struct {
	Dump     string
	Events   string
	Replies  string // decoded traffic from the node to the sender's address
	Health   int
	RawReply []byte
}

func (o Outcome) Key() string {
	return fmt.Sprintf("dump{%s} events{%s} replies{%s} health=%d", o.Dump, o.Events, o.Replies, o.Health)
}

// Deliver sends raw bytes from the sender (packet or stream), waits, and
// captures the outcome. The wait is long enough for a relayed probe to time
// out (nack) and a refutation to be gossiped.
func (w *World) Deliver(raw []byte, stream bool) (Outcome, error) {
	p := w.P
	evIdx := p.Rec.Len()
	tapIdx := p.TapLen()
	var reply []byte
	if stream {
		c, err := w.Att.Dial(p.Addr(), time.Second)
		if err == nil {
			_, _ = c.Write(raw)
			c.CloseWrite()
			reply, _ = c.ReadAllFor(5 * time.Second)
			c.Close()
		}
	} else {
		w.Att.Send(p.Addr(), raw)
	}
	p.Settle()
	time.Sleep(700 * time.Millisecond)
	p.Settle()
	return w.capture(evIdx, tapIdx, reply)
}

// DeliverSplit delivers a stream message in two parts: raw[:split], then - once the node has consumed that and waits for
// more - mid() runs (a keyring operation, say), then the rest.
func (w *World) DeliverSplit(raw []byte, split int, mid func()) (Outcome, error) {
	p := w.P
	evIdx := p.Rec.Len()
	tapIdx := p.TapLen()
	var reply []byte
	c, err := w.Att.Dial(p.Addr(), time.Second)
	if err == nil {
		if split > len(raw) {
			split = len(raw)
		}
		_, _ = c.Write(raw[:split])
		p.Settle()
		mid()
		p.Settle()
		_, _ = c.Write(raw[split:])
		c.CloseWrite()
		reply, _ = c.ReadAllFor(5 * time.Second)
		c.Close()
	}
	p.Settle()
	time.Sleep(700 * time.Millisecond)
	p.Settle()
	return w.capture(evIdx, tapIdx, reply)
}

func (w *World) capture(evIdx, tapIdx int, reply []byte) (Outcome, error) {
	p := w.P
	var o Outcome
	o.RawReply = reply
	d, err := p.Dump()
	if err != nil {
		return o, fmt.Errorf("state dump failed: %w", err)
	}
	var rows []string
	for _, r := range d {
		rows = append(rows, r.String())
	}
	sort.Strings(rows)
	o.Dump = strings.Join(rows, " ")
	var evs []string
	for _, e := range p.Rec.Since(evIdx) {
		if e.Kind == "local-state" || e.Kind == "ping-complete" {
			continue
		}
		evs = append(evs, fmt.Sprintf("%s/%s/%s:%d/%x/%x/%s", e.Kind, e.Name, e.Addr, e.Port, e.Meta, e.Data, e.Other))
	}
	o.Events = strings.Join(evs, " ")
	// replies: packets from the node to the sender's address, decoded; plus the stream reply
	cd := p.Codec
	evts, _ := p.Net.EventsSince(tapIdx)
	var reps []string
	for _, e := range evts {
		if e.Kind == "pkt" && e.Src == p.Addr() && e.Dst == w.AttAddr {
			info, err := cd.DecodePacket(e.Data)
			if err != nil {
				reps = append(reps, fmt.Sprintf("undecodable-packet(%d bytes)", len(e.Data)))
				continue
			}
			for _, l := range info.Leaves {
				// piggybacked broadcasts depend on queue state; only the direct replies matter
				if l.Type == wire.AckRespMsg || l.Type == wire.NackRespMsg || l.Type == wire.PingMsg || l.Type == wire.ErrMsg {
					reps = append(reps, l.String())
				}
			}
		}
	}
	if len(reply) > 0 {
		sm, err := cd.DecodeStream(reply)
		if err != nil {
			reps = append(reps, fmt.Sprintf("stream-reply-undecodable(%d bytes: %v)", len(reply), err))
		} else {
			switch sm.Type {
			case wire.ErrMsg:
				reps = append(reps, "stream-error-reply")
			case wire.PushPullMsg:
				reps = append(reps, fmt.Sprintf("stream-pushpull-reply(%d nodes, %d state bytes)", len(sm.Nodes), len(sm.UserState)))
			default:
				reps = append(reps, fmt.Sprintf("stream-reply %s %+v", wire.TypeName(sm.Type), sm.V))
			}
		}
	}
	o.Replies = strings.Join(reps, " ")
	o.Health = p.M.GetHealthScore()
	return o, nil
}
