// Package simnet is a virtual network whose endpoints implement
// memberlist.NodeAwareTransport. It is meant to run inside a testing/synctest
// bubble: all waiting is done on sync.Cond / channels / timers created in the
// bubble, so time is virtual. Every decision of the fault model is a pure
// function of (seed, link, per-link counter); there is no shared RNG stream.
package simnet

import (
	"encoding/binary"
	"errors"
	"fmt"
	"hash/fnv"
	"io"
	"net"
	"strconv"
	"sync"
	"time"

	"github.com/hashicorp/memberlist"
)

// Addr is a net.Addr whose String() is "ip:port".
type Addr struct {
	S   string
	Net string
}

func (a *Addr) Network() string { return a.Net }
func (a *Addr) String() string  { return a.S }

// Event is one tap record.
type Event struct {
	T     time.Duration // virtual time since network creation
	Kind  string        // pkt | pkt-lost | dial | dial-fail | swrite | sclose
	Src   string
	Dst   string
	Conn  int    // stream id for swrite/sclose/dial
	Data  []byte // packet or written bytes
	Note  string
	Delay time.Duration // pkt: latency of the (first) delivery
}

// Verdict is the fault model's decision for one packet.
type Verdict struct {
	Drop   bool
	Delays []time.Duration // one delivery per entry (duplicates); empty = one delivery at DefaultLatency
}

// StreamVerdict is the decision for one dial.
type StreamVerdict struct {
	Refuse  bool          // connection refused at once
	Hang    bool          // dial blocks until its timeout
	Latency time.Duration // one-way latency of the stream
	// CutAB / CutBA: cut the dialer->acceptor / acceptor->dialer direction
	// after that many bytes (-1 = never). CutMode: "reset", "eof" or "stall".
	CutAB, CutBA int
	CutMode      string
	Chunk        func(i int) int // fragment sizes for writes (nil = whole)
}

// Policy decides the fate of packets and dials. h is a hash of
// (seed, src, dst, n) where n counts packets (or dials) on that link.
type Policy interface {
	Packet(src, dst string, n uint64, h uint64, size int, now time.Duration) Verdict
	Stream(src, dst string, n uint64, h uint64, now time.Duration) StreamVerdict
}

// PerfectPolicy delivers everything after a fixed latency.
type PerfectPolicy struct{ Latency time.Duration }

func (p PerfectPolicy) Packet(string, string, uint64, uint64, int, time.Duration) Verdict {
	return Verdict{Delays: []time.Duration{p.Latency}}
}
func (p PerfectPolicy) Stream(string, string, uint64, uint64, time.Duration) StreamVerdict {
	return StreamVerdict{Latency: 0, CutAB: -1, CutBA: -1}
}

// Network is the shared medium.
type Network struct {
	unreach    map[string]bool // hosts towards which packet writes fail
	mu         sync.Mutex
	seed       uint64
	start      time.Time
	eps        map[string]*Endpoint
	policy     Policy
	counters   map[string]uint64
	blocked    map[string]bool // "a|b" directed
	blockedPkt map[string]bool
	events     []Event
	record     bool
	connSeq    int
	// OnEvent, when set, is called (outside the lock) for every event.
	OnEvent func(Event)
	// Mangle, when set, may rewrite a packet in flight (after it was tapped as
	// sent); returning nil drops it.
	Mangle func(src, dst string, b []byte) []byte
}

// New creates a network. Must be called inside the bubble.
func New(seed uint64) *Network {
	return &Network{seed: seed, start: time.Now(), eps: map[string]*Endpoint{}, policy: PerfectPolicy{Latency: 200 * time.Microsecond},
		counters: map[string]uint64{}, blocked: map[string]bool{}, blockedPkt: map[string]bool{}, record: true}
}

func (n *Network) SetPolicy(p Policy) { n.mu.Lock(); n.policy = p; n.mu.Unlock() }
func (n *Network) SetRecord(b bool)   { n.mu.Lock(); n.record = b; n.mu.Unlock() }

// Now returns virtual time since creation.
func (n *Network) Now() time.Duration { return time.Since(n.start) }

// Block drops every packet and refuses every dial from a to b while set.
func (n *Network) Block(a, b string, on bool) {
	n.mu.Lock()
	if on {
		n.blocked[a+"|"+b] = true
	} else {
		delete(n.blocked, a+"|"+b)
	}
	n.mu.Unlock()
}

// BlockPackets drops every packet from a to b while set; streams are unaffected.
func (n *Network) BlockPackets(a, b string, on bool) {
	n.mu.Lock()
	if on {
		n.blockedPkt[a+"|"+b] = true
	} else {
		delete(n.blockedPkt, a+"|"+b)
	}
	n.mu.Unlock()
}

// Events returns a copy of the tap.
func (n *Network) Events() []Event {
	n.mu.Lock()
	defer n.mu.Unlock()
	return append([]Event(nil), n.events...)
}

// EventsSince returns events with index >= i and the new length.
func (n *Network) EventsSince(i int) ([]Event, int) {
	n.mu.Lock()
	defer n.mu.Unlock()
	if i > len(n.events) {
		i = len(n.events)
	}
	return append([]Event(nil), n.events[i:]...), len(n.events)
}

func (n *Network) emit(e Event) {
	e.T = time.Since(n.start)
	n.mu.Lock()
	if n.record {
		n.events = append(n.events, e)
	}
	cb := n.OnEvent
	n.mu.Unlock()
	if cb != nil {
		cb(e)
	}
}

func (n *Network) linkHash(kind, src, dst string) (uint64, uint64) {
	key := kind + src + ">" + dst
	n.mu.Lock()
	c := n.counters[key]
	n.counters[key] = c + 1
	n.mu.Unlock()
	h := fnv.New64a()
	var b [8]byte
	binary.LittleEndian.PutUint64(b[:], n.seed)
	h.Write(b[:])
	h.Write([]byte(key))
	binary.LittleEndian.PutUint64(b[:], c)
	h.Write(b[:])
	// final avalanche
	x := h.Sum64()
	x ^= x >> 33
	x *= 0xff51afd7ed558ccd
	x ^= x >> 33
	x *= 0xc4ceb9fe1a85ec53
	x ^= x >> 33
	return c, x
}

// PeerHandler scripts an endpoint that is played by the harness.
type PeerHandler interface {
	OnPacket(ep *Endpoint, from string, b []byte)
	OnStream(ep *Endpoint, from string, c *Conn)
}

// Endpoint is one address on the network. With a nil handler it is the
// Transport of a real memberlist node.
type Endpoint struct {
	net      *Network
	addr     string
	ip       net.IP
	port     int
	packetCh chan *memberlist.Packet
	streamCh chan net.Conn
	handler  PeerHandler

	mu       sync.Mutex
	shutdown bool // Transport.Shutdown was called
	down     bool // host is gone: packets vanish, dials hang
	// counters
	PostShutdownWrites int
	PostShutdownDials  int
	// ShutdownDelay makes Transport.Shutdown take that long.
	ShutdownDelay time.Duration
	// unreachable destinations: a packet write towards them fails like sendto() with EHOSTUNREACH
	unreachable map[string]bool
	sendErr     map[string]error
	SendErrors  int
}

// SetSendError makes packet writes of this endpoint towards dst fail with exactly err (nil: succeed again). A
// *net.OpError with Op "write" is what a socket reports for the peer's side; any other error is a local problem.
func (e *Endpoint) SetSendError(dst string, err error) {
	e.mu.Lock()
	defer e.mu.Unlock()
	if e.sendErr == nil {
		e.sendErr = map[string]error{}
	}
	if err == nil {
		delete(e.sendErr, dst)
	} else {
		e.sendErr[dst] = err
	}
}

// SetUnreachable makes packet writes of this endpoint towards dst fail with a write error (or succeed again).
func (e *Endpoint) SetUnreachable(dst string, on bool) {
	e.mu.Lock()
	defer e.mu.Unlock()
	if e.unreachable == nil {
		e.unreachable = map[string]bool{}
	}
	if on {
		e.unreachable[dst] = true
	} else {
		delete(e.unreachable, dst)
	}
}

var _ memberlist.NodeAwareTransport = (*Endpoint)(nil)

// NewEndpoint registers an address. handler nil = real node.
func (n *Network) NewEndpoint(ip string, port int, handler PeerHandler) *Endpoint {
	pip := net.ParseIP(ip)
	if pip == nil {
		panic("bad ip " + ip)
	}
	if v4 := pip.To4(); v4 != nil {
		pip = v4
	}
	ep := &Endpoint{net: n, addr: net.JoinHostPort(ip, strconv.Itoa(port)), ip: pip, port: port, handler: handler,
		packetCh: make(chan *memberlist.Packet, 8192), streamCh: make(chan net.Conn, 512)}
	n.mu.Lock()
	n.eps[ep.addr] = ep
	n.mu.Unlock()
	return ep
}

// Remove unregisters the endpoint (the address becomes unreachable, and a new
// endpoint may take it: a restart).
// SetHostUnreachable makes every packet write towards addr fail at the sender (the routers answer "host unreachable").
func (n *Network) SetHostUnreachable(addr string, on bool) {
	n.mu.Lock()
	defer n.mu.Unlock()
	if n.unreach == nil {
		n.unreach = map[string]bool{}
	}
	if on {
		n.unreach[addr] = true
	} else {
		delete(n.unreach, addr)
	}
}

func (n *Network) hostUnreachable(addr string) bool {
	n.mu.Lock()
	defer n.mu.Unlock()
	return n.unreach[addr]
}

func (n *Network) Remove(ep *Endpoint) {
	n.mu.Lock()
	if n.eps[ep.addr] == ep {
		delete(n.eps, ep.addr)
	}
	n.mu.Unlock()
}

func (e *Endpoint) Addr() string { return e.addr }
func (e *Endpoint) IP() net.IP   { return e.ip }
func (e *Endpoint) Port() int    { return e.port }

// SetDown makes the host unreachable (packets vanish, dials hang until
// timeout) without telling the node.
func (e *Endpoint) SetDown(b bool) { e.mu.Lock(); e.down = b; e.mu.Unlock() }

func (e *Endpoint) isDown() bool     { e.mu.Lock(); defer e.mu.Unlock(); return e.down }
func (e *Endpoint) isShutdown() bool { e.mu.Lock(); defer e.mu.Unlock(); return e.shutdown }

// --- memberlist.Transport ---------------------------------------------------

func (e *Endpoint) FinalAdvertiseAddr(ip string, port int) (net.IP, int, error) {
	return e.ip, e.port, nil
}

func (e *Endpoint) WriteTo(b []byte, addr string) (time.Time, error) {
	return e.WriteToAddress(b, memberlist.Address{Addr: addr})
}

func (e *Endpoint) WriteToAddress(b []byte, a memberlist.Address) (time.Time, error) {
	now := time.Now()
	e.mu.Lock()
	if e.shutdown {
		e.PostShutdownWrites++
		e.mu.Unlock()
		e.net.emit(Event{Kind: "pkt-after-shutdown", Src: e.addr, Dst: a.Addr, Data: append([]byte(nil), b...)})
		return now, &net.OpError{Op: "write", Net: "udp", Err: errors.New("use of closed network connection")}
	}
	if serr := e.sendErr[a.Addr]; serr != nil {
		e.SendErrors++
		e.mu.Unlock()
		e.net.emit(Event{Kind: "pkt-send-error", Src: e.addr, Dst: a.Addr, Data: append([]byte(nil), b...), Note: serr.Error()})
		return now, serr
	}
	if e.unreachable[a.Addr] || e.net.hostUnreachable(a.Addr) {
		e.SendErrors++
		e.mu.Unlock()
		e.net.emit(Event{Kind: "pkt-send-error", Src: e.addr, Dst: a.Addr, Data: append([]byte(nil), b...)})
		return now, &net.OpError{Op: "write", Net: "udp", Err: errors.New("sendto: no route to host")}
	}
	e.mu.Unlock()
	e.net.sendPacket(e.addr, a.Addr, b)
	return now, nil
}

func (e *Endpoint) PacketCh() <-chan *memberlist.Packet { return e.packetCh }
func (e *Endpoint) StreamCh() <-chan net.Conn           { return e.streamCh }

func (e *Endpoint) DialTimeout(addr string, timeout time.Duration) (net.Conn, error) {
	return e.DialAddressTimeout(memberlist.Address{Addr: addr}, timeout)
}

func (e *Endpoint) DialAddressTimeout(a memberlist.Address, timeout time.Duration) (net.Conn, error) {
	e.mu.Lock()
	if e.shutdown {
		e.PostShutdownDials++
		e.mu.Unlock()
		e.net.emit(Event{Kind: "dial-after-shutdown", Src: e.addr, Dst: a.Addr})
		return nil, &net.OpError{Op: "dial", Net: "tcp", Err: errors.New("transport is shut down")}
	}
	e.mu.Unlock()
	c, err := e.net.dial(e.addr, a.Addr, timeout)
	if err != nil {
		return nil, err
	}
	return c, nil
}

func (e *Endpoint) Shutdown() error {
	// like a real transport, tearing the listeners down may take a moment
	if d := e.ShutdownDelay; d > 0 {
		time.Sleep(d)
	}
	e.mu.Lock()
	e.shutdown = true
	e.mu.Unlock()
	return nil
}

// IsShutdown reports whether Transport.Shutdown has completed.
func (e *Endpoint) IsShutdown() bool { return e.isShutdown() }

// Send lets a scripted peer emit a packet from this endpoint.
func (e *Endpoint) Send(to string, b []byte) { e.net.sendPacket(e.addr, to, b) }

// SendFrom injects a packet that claims an arbitrary source address.
func (n *Network) SendFrom(src, to string, b []byte) { n.sendPacket(src, to, b) }

// DeliverNow hands a packet to the destination at once, without a timer (for
// moments at which virtual time cannot advance).
func (n *Network) DeliverNow(src, to string, b []byte) {
	n.emit(Event{Kind: "pkt", Src: src, Dst: to, Data: append([]byte(nil), b...)})
	n.deliver(src, to, append([]byte(nil), b...))
}

// Dial lets a scripted peer open a stream from this endpoint.
func (e *Endpoint) Dial(to string, timeout time.Duration) (*Conn, error) {
	return e.net.dial(e.addr, to, timeout)
}

// --- packets -----------------------------------------------------------------

func (n *Network) sendPacket(src, dst string, b []byte) {
	data := append([]byte(nil), b...)
	cnt, h := n.linkHash("p", src, dst)
	n.mu.Lock()
	pol := n.policy
	blocked := n.blocked[src+"|"+dst] || n.blockedPkt[src+"|"+dst]
	n.mu.Unlock()
	v := pol.Packet(src, dst, cnt, h, len(b), time.Since(n.start))
	if blocked || v.Drop {
		n.emit(Event{Kind: "pkt-lost", Src: src, Dst: dst, Data: data, Note: "policy"})
		return
	}
	delays := v.Delays
	if len(delays) == 0 {
		delays = []time.Duration{200 * time.Microsecond}
	}
	n.emit(Event{Kind: "pkt", Src: src, Dst: dst, Data: data, Delay: delays[0]})
	n.mu.Lock()
	mg := n.Mangle
	n.mu.Unlock()
	if mg != nil {
		data = mg(src, dst, data)
		if data == nil {
			return
		}
	}
	for _, d := range delays {
		if d <= 0 {
			d = time.Microsecond
		}
		time.AfterFunc(d, func() { n.deliver(src, dst, data) })
	}
}

func (n *Network) deliver(src, dst string, data []byte) {
	n.mu.Lock()
	ep := n.eps[dst]
	n.mu.Unlock()
	if ep == nil || ep.isDown() {
		return
	}
	if ep.handler != nil {
		ep.handler.OnPacket(ep, src, data)
		return
	}
	if ep.isShutdown() {
		return
	}
	select {
	case ep.packetCh <- &memberlist.Packet{Buf: append([]byte(nil), data...), From: &Addr{S: src, Net: "udp"}, Timestamp: time.Now()}:
	default:
		n.emit(Event{Kind: "pkt-lost", Src: src, Dst: dst, Note: "receive buffer full"})
	}
}

// --- streams -------------------------------------------------------------------

type timeoutErr struct{ op string }

func (e *timeoutErr) Error() string   { return e.op + ": i/o timeout" }
func (e *timeoutErr) Timeout() bool   { return true }
func (e *timeoutErr) Temporary() bool { return true }

func (n *Network) dial(src, dst string, timeout time.Duration) (*Conn, error) {
	cnt, h := n.linkHash("s", src, dst)
	n.mu.Lock()
	ep := n.eps[dst]
	pol := n.policy
	blocked := n.blocked[src+"|"+dst] || n.blocked[dst+"|"+src]
	n.connSeq++
	id := n.connSeq
	n.mu.Unlock()
	v := pol.Stream(src, dst, cnt, h, time.Since(n.start))
	fail := func(note string, hang bool) (*Conn, error) {
		n.emit(Event{Kind: "dial-fail", Src: src, Dst: dst, Conn: id, Note: note})
		if hang {
			if timeout <= 0 {
				timeout = time.Hour
			}
			time.Sleep(timeout)
			return nil, &net.OpError{Op: "dial", Net: "tcp", Err: &timeoutErr{"dial"}}
		}
		return nil, &net.OpError{Op: "dial", Net: "tcp", Err: errors.New("connection refused")}
	}
	if timeout < 0 {
		return fail("deadline already passed", false)
	}
	if ep == nil {
		return fail("no such host", false)
	}
	if ep.isDown() || blocked {
		return fail("unreachable", true)
	}
	if ep.handler == nil && ep.isShutdown() {
		return fail("listener closed", false)
	}
	if v.Refuse {
		return fail("policy refuse", false)
	}
	if v.Hang {
		return fail("policy hang", true)
	}
	a, b := n.newPipe(id, src, dst, v)
	if ep.handler != nil {
		n.emit(Event{Kind: "dial", Src: src, Dst: dst, Conn: id})
		go ep.handler.OnStream(ep, src, b)
		return a, nil
	}
	select {
	case ep.streamCh <- b:
		n.emit(Event{Kind: "dial", Src: src, Dst: dst, Conn: id})
		return a, nil
	default:
		return fail("accept queue full", false)
	}
}

// half is one direction of a stream.
type half struct {
	mu        sync.Mutex
	cond      *sync.Cond
	ready     [][]byte // readable chunks
	inflight  [][]byte // written, not yet arrived
	lat       time.Duration
	wclosed   bool  // writer closed: EOF after drain
	rclosed   bool  // reader closed: writes fail
	broken    error // hard error for the reader after drain
	cutAfter  int   // -1 never
	cutMode   string
	written   int // bytes accepted from the writer
	delivered int // bytes that arrived (readable or read)
	consumed  int // bytes handed to Read callers
	stalled   bool
	chunk     func(i int) int
	nwrites   int
	rdeadline time.Time
	rdTimer   *time.Timer
}

func newHalf(lat time.Duration, cut int, mode string, chunk func(int) int) *half {
	h := &half{lat: lat, cutAfter: cut, cutMode: mode, chunk: chunk}
	h.cond = sync.NewCond(&h.mu)
	return h
}

// Conn is one end of an in-memory full-duplex stream.
type Conn struct {
	net        *Network
	id         int
	local, rem string
	rd, wr     *half
	mu         sync.Mutex
	closed     bool
	wdeadline  time.Time
}

func (n *Network) newPipe(id int, src, dst string, v StreamVerdict) (*Conn, *Conn) {
	ab := newHalf(v.Latency, v.CutAB, v.CutMode, v.Chunk)
	ba := newHalf(v.Latency, v.CutBA, v.CutMode, v.Chunk)
	a := &Conn{net: n, id: id, local: src, rem: dst, rd: ba, wr: ab}
	b := &Conn{net: n, id: id, local: dst, rem: src, rd: ab, wr: ba}
	return a, b
}

func (c *Conn) ID() int { return c.id }

// Consumed reports how many bytes the peer has actually read from what this
// end wrote.
func (c *Conn) Consumed() int { c.wr.mu.Lock(); defer c.wr.mu.Unlock(); return c.wr.consumed }

// PeerClosed reports whether the other end has closed its side.
func (c *Conn) PeerClosed() bool {
	c.rd.mu.Lock()
	defer c.rd.mu.Unlock()
	return c.rd.wclosed || c.rd.broken != nil
}

func (c *Conn) Read(p []byte) (int, error) {
	h := c.rd
	h.mu.Lock()
	defer h.mu.Unlock()
	for {
		if h.rclosed {
			return 0, &net.OpError{Op: "read", Net: "tcp", Err: net.ErrClosed}
		}
		if len(h.ready) > 0 {
			if len(p) == 0 {
				return 0, nil
			}
			n := copy(p, h.ready[0])
			if n == len(h.ready[0]) {
				h.ready = h.ready[1:]
			} else {
				h.ready[0] = h.ready[0][n:]
			}
			h.consumed += n
			return n, nil
		}
		if len(h.inflight) == 0 {
			if h.broken != nil {
				return 0, h.broken
			}
			if h.wclosed && !h.stalled {
				return 0, errEOF
			}
		}
		if !h.rdeadline.IsZero() && !time.Now().Before(h.rdeadline) {
			return 0, &net.OpError{Op: "read", Net: "tcp", Err: &timeoutErr{"read"}}
		}
		h.cond.Wait()
	}
}

var errEOF = io.EOF

func (c *Conn) Write(p []byte) (int, error) {
	c.mu.Lock()
	if c.closed {
		c.mu.Unlock()
		return 0, &net.OpError{Op: "write", Net: "tcp", Err: net.ErrClosed}
	}
	wd := c.wdeadline
	c.mu.Unlock()
	if !wd.IsZero() && !time.Now().Before(wd) {
		return 0, &net.OpError{Op: "write", Net: "tcp", Err: &timeoutErr{"write"}}
	}
	h := c.wr
	h.mu.Lock()
	if h.rclosed || h.broken != nil {
		h.mu.Unlock()
		return 0, &net.OpError{Op: "write", Net: "tcp", Err: errors.New("broken pipe")}
	}
	data := append([]byte(nil), p...)
	total := len(data)
	// apply the cut
	if h.cutAfter >= 0 {
		room := h.cutAfter - h.written
		if room < 0 {
			room = 0
		}
		if len(data) > room {
			data = data[:room]
			switch h.cutMode {
			case "reset":
				h.broken = &net.OpError{Op: "read", Net: "tcp", Err: errors.New("connection reset by peer")}
			case "stall":
				h.stalled = true
			default:
				h.wclosed = true
			}
		}
	}
	h.written += total
	// fragment
	var chunks [][]byte
	for len(data) > 0 {
		sz := len(data)
		if h.chunk != nil {
			if s := h.chunk(h.nwrites); s > 0 && s < sz {
				sz = s
			}
			h.nwrites++
		}
		chunks = append(chunks, data[:sz])
		data = data[sz:]
	}
	lat := h.lat
	if lat <= 0 {
		h.ready = append(h.ready, chunks...)
		for _, ch := range chunks {
			h.delivered += len(ch)
		}
		h.cond.Broadcast()
		h.mu.Unlock()
	} else {
		h.inflight = append(h.inflight, chunks...)
		nch := len(chunks)
		h.mu.Unlock()
		if nch > 0 {
			time.AfterFunc(lat, func() {
				h.mu.Lock()
				k := nch
				if k > len(h.inflight) {
					k = len(h.inflight)
				}
				for _, ch := range h.inflight[:k] {
					h.delivered += len(ch)
				}
				h.ready = append(h.ready, h.inflight[:k]...)
				h.inflight = h.inflight[k:]
				h.cond.Broadcast()
				h.mu.Unlock()
			})
		} else {
			h.mu.Lock()
			h.cond.Broadcast()
			h.mu.Unlock()
		}
	}
	c.net.emit(Event{Kind: "swrite", Src: c.local, Dst: c.rem, Conn: c.id, Data: append([]byte(nil), p...)})
	return total, nil
}

func (c *Conn) Close() error {
	c.mu.Lock()
	if c.closed {
		c.mu.Unlock()
		return nil
	}
	c.closed = true
	c.mu.Unlock()
	c.wr.mu.Lock()
	c.wr.wclosed = true
	c.wr.cond.Broadcast()
	c.wr.mu.Unlock()
	c.rd.mu.Lock()
	c.rd.rclosed = true
	if c.rd.rdTimer != nil {
		c.rd.rdTimer.Stop()
	}
	c.rd.cond.Broadcast()
	c.rd.mu.Unlock()
	c.net.emit(Event{Kind: "sclose", Src: c.local, Dst: c.rem, Conn: c.id})
	return nil
}

// CloseWrite half-closes: the peer sees EOF after the buffered data.
func (c *Conn) CloseWrite() {
	c.wr.mu.Lock()
	c.wr.wclosed = true
	c.wr.cond.Broadcast()
	c.wr.mu.Unlock()
}

// Reset aborts the stream: the peer's reads fail with a reset error once the
// buffered data is drained and its writes fail.
func (c *Conn) Reset() {
	c.wr.mu.Lock()
	c.wr.broken = &net.OpError{Op: "read", Net: "tcp", Err: errors.New("connection reset by peer")}
	c.wr.cond.Broadcast()
	c.wr.mu.Unlock()
	c.rd.mu.Lock()
	c.rd.rclosed = true
	c.rd.cond.Broadcast()
	c.rd.mu.Unlock()
	c.mu.Lock()
	c.closed = true
	c.mu.Unlock()
}

// IsClosed reports whether this end has been closed by its owner.
func (c *Conn) IsClosed() bool { c.mu.Lock(); defer c.mu.Unlock(); return c.closed }

func (c *Conn) LocalAddr() net.Addr  { return &Addr{S: c.local, Net: "tcp"} }
func (c *Conn) RemoteAddr() net.Addr { return &Addr{S: c.rem, Net: "tcp"} }

func (c *Conn) SetDeadline(t time.Time) error {
	_ = c.SetReadDeadline(t)
	return c.SetWriteDeadline(t)
}

func (c *Conn) SetReadDeadline(t time.Time) error {
	h := c.rd
	h.mu.Lock()
	defer h.mu.Unlock()
	h.rdeadline = t
	if h.rdTimer != nil {
		h.rdTimer.Stop()
		h.rdTimer = nil
	}
	if !t.IsZero() {
		d := time.Until(t)
		if d < 0 {
			d = 0
		}
		h.rdTimer = time.AfterFunc(d, func() {
			h.mu.Lock()
			h.cond.Broadcast()
			h.mu.Unlock()
		})
	}
	h.cond.Broadcast()
	return nil
}

func (c *Conn) SetWriteDeadline(t time.Time) error {
	c.mu.Lock()
	c.wdeadline = t
	c.mu.Unlock()
	return nil
}

// ReadAllAvailable reads until EOF/err or until the deadline d from now.
func (c *Conn) ReadAllFor(d time.Duration) ([]byte, error) {
	_ = c.SetReadDeadline(time.Now().Add(d))
	var out []byte
	buf := make([]byte, 65536)
	for {
		n, err := c.Read(buf)
		out = append(out, buf[:n]...)
		if err != nil {
			return out, err
		}
	}
}

func (e Event) String() string {
	return fmt.Sprintf("%9.3fs %-9s %s>%s #%d %dB %s", e.T.Seconds(), e.Kind, e.Src, e.Dst, e.Conn, len(e.Data), e.Note)
}

// Pipe returns the two ends of a fresh in-memory stream (a: "dialer", b:
// "acceptor") with the given verdict applied, without any endpoint involved.
func (n *Network) Pipe(v StreamVerdict) (*Conn, *Conn) {
	n.mu.Lock()
	n.connSeq++
	id := n.connSeq
	n.mu.Unlock()
	return n.newPipe(id, "pipe-a:1", "pipe-b:1", v)
}
