package cluster

import (
	"fmt"

	"pgregory.net/rapid"

	"verif/harness/puppet"
)

// Conf is the JSON-able cluster-wide configuration of a generated scenario.
type Conf struct {
	N                int
	PVs              []uint8 // per node
	Encrypt          bool    `json:",omitempty"`
	Label            string  `json:",omitempty"`
	NoCompress       bool    `json:",omitempty"`
	ProbeIntervalMs  int
	ProbeTimeoutMs   int
	SuspicionMult    int
	SuspicionMaxMult int
	AwarenessMax     int
	IndirectChecks   int
	DisableTcpPings  bool `json:",omitempty"`
	GossipIntervalMs int
	GossipNodes      int
	PushPullMs       int
	GossipToDeadMs   int
	RetransmitMult   int
	TCPTimeoutMs     int
}

var testKey = []byte("0123456789abcdef0123456789abcdef")

// NodeConf builds the i-th node's configuration.
func (c Conf) NodeConf(i int) puppet.NodeConf {
	nc := puppet.NodeConf{
		Name: fmt.Sprintf("n%d", i), IP: fmt.Sprintf("10.0.0.%d", i+1), Port: 7946,
		ProtocolVersion: c.PVs[i%len(c.PVs)], Label: c.Label, NoCompress: c.NoCompress,
		ProbeIntervalMs: c.ProbeIntervalMs, ProbeTimeoutMs: c.ProbeTimeoutMs, SuspicionMult: c.SuspicionMult,
		SuspicionMaxMult: c.SuspicionMaxMult, AwarenessMax: c.AwarenessMax, IndirectChecks: c.IndirectChecks,
		DisableTcpPings: c.DisableTcpPings, GossipIntervalMs: c.GossipIntervalMs, GossipNodes: c.GossipNodes,
		PushPullMs: c.PushPullMs, GossipToDeadMs: c.GossipToDeadMs, RetransmitMult: c.RetransmitMult, TCPTimeoutMs: c.TCPTimeoutMs,
		Meta: []byte(fmt.Sprintf("meta-%d-0", i)),
	}
	if c.Encrypt {
		nc.Keys = [][]byte{testKey}
	}
	return nc
}

// GenConf draws a cluster configuration with n in [minN, maxN].
func GenConf(t *rapid.T, minN, maxN int) Conf {
	c := Conf{N: rapid.IntRange(minN, maxN).Draw(t, "n")}
	c.Encrypt = rapid.IntRange(0, 2).Draw(t, "enc") == 0
	mixed := rapid.IntRange(0, 2).Draw(t, "pvmix")
	lo := 2
	if c.Encrypt {
		lo = 1
	}
	switch mixed {
	case 0:
		c.PVs = []uint8{2}
	case 1:
		c.PVs = []uint8{uint8(rapid.IntRange(lo, 5).Draw(t, "pv"))}
	default:
		c.PVs = make([]uint8, c.N)
		for i := range c.PVs {
			c.PVs[i] = uint8(rapid.IntRange(lo, 5).Draw(t, "pvi"))
		}
	}
	c.Label = rapid.SampledFrom([]string{"", "", "blue"}).Draw(t, "label")
	c.NoCompress = rapid.IntRange(0, 3).Draw(t, "nocomp") == 0
	c.ProbeIntervalMs = rapid.SampledFrom([]int{500, 1000, 1000, 2000}).Draw(t, "pi")
	c.ProbeTimeoutMs = c.ProbeIntervalMs * rapid.SampledFrom([]int{20, 50, 50, 80}).Draw(t, "ptpct") / 100
	c.SuspicionMult = rapid.IntRange(1, 6).Draw(t, "sm")
	c.SuspicionMaxMult = rapid.IntRange(1, 6).Draw(t, "smm")
	c.AwarenessMax = rapid.SampledFrom([]int{1, 2, 4, 8}).Draw(t, "am")
	c.IndirectChecks = rapid.IntRange(0, 4).Draw(t, "ic")
	c.DisableTcpPings = rapid.IntRange(0, 2).Draw(t, "notcp") == 0
	c.GossipIntervalMs = rapid.SampledFrom([]int{100, 200, 200, 500}).Draw(t, "gi")
	c.GossipNodes = rapid.IntRange(1, 4).Draw(t, "gn")
	c.PushPullMs = rapid.SampledFrom([]int{5000, 15000, 30000}).Draw(t, "pp")
	c.GossipToDeadMs = rapid.SampledFrom([]int{5000, 30000}).Draw(t, "gtd")
	c.RetransmitMult = rapid.IntRange(1, 4).Draw(t, "rm")
	c.TCPTimeoutMs = rapid.SampledFrom([]int{500, 1000, 10000}).Draw(t, "tcpto")
	return c
}
