//go:build !race

package cluster

// RaceBuild reports whether the race detector is compiled in.
const RaceBuild = false
