// Package cluster runs N real memberlist nodes on one simnet inside a
// testing/synctest bubble, with a counter-based fault policy, and provides the
// shared observers (decoded wire tap, event-log replay, polling monitor).
package cluster

import (
	"fmt"
	"math"
	"net"
	"sort"
	"sync"
	"testing/synctest"
	"time"

	"github.com/hashicorp/memberlist"

	"verif/harness/puppet"
	"verif/harness/simnet"
	"verif/harness/wire"
)

// Faults is a JSON-able, counter-hash driven fault model.
type Faults struct {
	LossPct     int `json:",omitempty"` // per packet
	DupPct      int `json:",omitempty"`
	MinLatUs    int `json:",omitempty"` // one-way latency range (microseconds)
	MaxLatUs    int `json:",omitempty"`
	RefusePct   int `json:",omitempty"` // per dial
	CutPct      int `json:",omitempty"` // per dial: cut one direction at a hash-chosen offset
	StreamLatUs int `json:",omitempty"`
}

type policy struct {
	mu         sync.Mutex
	f          Faults
	active     bool
	quietLatUs int
}

func (p *policy) set(f Faults, active bool) {
	p.mu.Lock()
	p.f, p.active = f, active
	p.mu.Unlock()
}

func (p *policy) Packet(src, dst string, n, h uint64, size int, now time.Duration) simnet.Verdict {
	p.mu.Lock()
	f, active, ql := p.f, p.active, p.quietLatUs
	p.mu.Unlock()
	if !active {
		if ql <= 0 {
			ql = 200
		}
		return simnet.Verdict{Delays: []time.Duration{time.Duration(ql) * time.Microsecond}}
	}
	lat := func(x uint64) time.Duration {
		lo, hi := f.MinLatUs, f.MaxLatUs
		if lo <= 0 {
			lo = 50
		}
		if hi < lo {
			hi = lo
		}
		return time.Duration(lo+int(x%uint64(hi-lo+1))) * time.Microsecond
	}
	if int(h%100) < f.LossPct {
		return simnet.Verdict{Drop: true}
	}
	d := []time.Duration{lat(h >> 8)}
	if int((h>>40)%100) < f.DupPct {
		d = append(d, lat(h>>20))
	}
	return simnet.Verdict{Delays: d}
}

func (p *policy) Stream(src, dst string, n, h uint64, now time.Duration) simnet.StreamVerdict {
	p.mu.Lock()
	f, active := p.f, p.active
	p.mu.Unlock()
	v := simnet.StreamVerdict{CutAB: -1, CutBA: -1, Latency: time.Duration(f.StreamLatUs) * time.Microsecond}
	if !active {
		v.Latency = 0
		return v
	}
	if int(h%100) < f.RefusePct {
		v.Refuse = true
		return v
	}
	if int((h>>16)%100) < f.CutPct {
		off := int((h >> 24) % 600)
		if (h>>50)&1 == 0 {
			v.CutAB = off
		} else {
			v.CutBA = off
		}
		v.CutMode = []string{"reset", "eof", "stall"}[(h>>52)%3]
	}
	return v
}

// Node is one real member.
type Node struct {
	C    *Cluster
	Idx  int
	Conf puppet.NodeConf
	EP   *simnet.Endpoint
	Rec  *puppet.Recorder
	MC   *memberlist.Config
	M    *memberlist.Memberlist
	Log  *puppet.LogBuf

	Running   bool // process exists
	Left      bool // Leave was called and returned
	LeaveAt   time.Duration
	CrashedAt time.Duration
	StartedAt time.Duration
	Gen       int
}

func (n *Node) Name() string { return n.Conf.Name }
func (n *Node) Addr() string { return net.JoinHostPort(n.Conf.IP, fmt.Sprint(n.Conf.Port)) }

// Cluster is the set of nodes on one network.
type Cluster struct {
	Net    *simnet.Network
	Nodes  []*Node
	pol    *policy
	Seed   uint64
	Codec  wire.Codec
	obs    *simnet.Endpoint
	obsSeq int
	mu     sync.Mutex
}

func New(seed uint64) *Cluster {
	c := &Cluster{Net: simnet.New(seed), pol: &policy{}, Seed: seed}
	c.Net.SetPolicy(c.pol)
	return c
}

// SetFaults switches the fault model.
func (c *Cluster) SetFaults(f Faults, active bool) { c.pol.set(f, active) }

// SetQuietLatency sets the fixed latency used while faults are inactive.
func (c *Cluster) SetQuietLatency(us int) { c.pol.mu.Lock(); c.pol.quietLatUs = us; c.pol.mu.Unlock() }

// Start creates a node (memberlist.Create).
func (c *Cluster) Start(conf puppet.NodeConf) (*Node, error) {
	n := &Node{C: c, Conf: conf, Rec: puppet.NewRecorder(), Log: &puppet.LogBuf{}}
	if err := c.boot(n); err != nil {
		return nil, err
	}
	c.mu.Lock()
	n.Idx = len(c.Nodes)
	c.Nodes = append(c.Nodes, n)
	c.Codec = conf.Codec()
	c.mu.Unlock()
	return n, nil
}

func (c *Cluster) boot(n *Node) error {
	n.EP = c.Net.NewEndpoint(n.Conf.IP, n.Conf.Port, nil)
	mc, err := n.Conf.Build(n.EP, n.Rec, n.Log)
	if err != nil {
		return err
	}
	n.MC = mc
	m, err := memberlist.Create(mc)
	if err != nil {
		return err
	}
	n.M = m
	n.Running = true
	n.Left = false
	n.StartedAt = c.Net.Now()
	return nil
}

// Crash stops the process without a leave: the node shuts down and its
// address swallows packets; dials to it are refused (process gone, host up)
// or hang (host gone).
func (c *Cluster) Crash(n *Node, hostDown bool) {
	if !n.Running {
		return
	}
	n.Running = false
	n.CrashedAt = c.Net.Now()
	if hostDown {
		n.EP.SetDown(true)
	}
	_ = n.M.Shutdown()
	if !hostDown {
		c.Net.Remove(n.EP)
	}
}

// CrashUnreachable is Crash(n, true) on a network that reports the host as unreachable: packet writes towards it
// fail at the sender instead of vanishing.
func (c *Cluster) CrashUnreachable(n *Node) {
	if !n.Running {
		return
	}
	c.Net.SetHostUnreachable(n.Addr(), true)
	c.Crash(n, true)
}

// Restart boots a fresh process with the same name and address.
func (c *Cluster) Restart(n *Node) error {
	if n.Running {
		return fmt.Errorf("still running")
	}
	c.Net.SetHostUnreachable(n.Addr(), false)
	c.Net.Remove(n.EP)
	n.Gen++
	n.Rec = puppet.NewRecorder()
	n.Log = &puppet.LogBuf{}
	return c.boot(n)
}

// Live returns the running nodes that have not left.
func (c *Cluster) Live() []*Node {
	var out []*Node
	for _, n := range c.Nodes {
		if n.Running && !n.Left {
			out = append(out, n)
		}
	}
	return out
}

// ShutdownAll stops every running node and lets goroutines drain.
func (c *Cluster) ShutdownAll() {
	c.mu.Lock()
	nodes := append([]*Node(nil), c.Nodes...)
	c.mu.Unlock()
	for _, n := range nodes {
		if n.Running {
			_ = n.M.Shutdown()
			n.Running = false
		}
	}
	time.Sleep(30 * time.Second)
}

// Wait lets every goroutine settle.
func (c *Cluster) Wait() { synctest.Wait() }

// MemberNames of a node, sorted.
func (n *Node) MemberNames() []string {
	var out []string
	for _, m := range n.M.Members() {
		out = append(out, m.Name)
	}
	sort.Strings(out)
	return out
}

// --- decoded tap -------------------------------------------------------------

// TapMsg is one decoded leaf of one packet on the wire.
type TapMsg struct {
	T    time.Duration
	Src  string
	Dst  string
	Lost bool
	Leaf wire.Leaf
	Size int
	Info *wire.PacketInfo
}

// DecodeTap decodes every packet event from index i on. Undecodable packets
// from real nodes are returned as errors.
func (c *Cluster) DecodeTap(i int, cd wire.Codec) ([]TapMsg, int, error) {
	evs, n := c.Net.EventsSince(i)
	var out []TapMsg
	for _, e := range evs {
		if (e.Kind != "pkt" && e.Kind != "pkt-lost") || e.Data == nil {
			continue
		}
		info, err := cd.DecodePacket(e.Data)
		if err != nil {
			return out, n, fmt.Errorf("packet %s>%s at %v (%d bytes) not decodable: %w", e.Src, e.Dst, e.T, len(e.Data), err)
		}
		for _, l := range info.Leaves {
			out = append(out, TapMsg{T: e.T, Src: e.Src, Dst: e.Dst, Lost: e.Kind == "pkt-lost", Leaf: l, Size: len(e.Data), Info: info})
		}
	}
	return out, n, nil
}

// --- event log replay (C07) ----------------------------------------------------

// ReplayEvents checks the per-member grammar join (update)* leave ... of a
// node's event log and returns the member set (name -> last event copy) that
// replaying it yields.
func ReplayEvents(evs []puppet.Ev) (map[string]puppet.Ev, error) {
	in := map[string]puppet.Ev{}
	for i, e := range evs {
		switch e.Kind {
		case "join":
			if _, ok := in[e.Name]; ok {
				return nil, fmt.Errorf("event %d: %s joined twice without an intervening leave (log: %v)", i, e.Name, brief(evs, e.Name))
			}
			in[e.Name] = e
		case "update":
			if _, ok := in[e.Name]; !ok {
				return nil, fmt.Errorf("event %d: update for %s which is not joined (log: %v)", i, e.Name, brief(evs, e.Name))
			}
			in[e.Name] = e
		case "leave":
			if _, ok := in[e.Name]; !ok {
				return nil, fmt.Errorf("event %d: leave for %s which is not joined (log: %v)", i, e.Name, brief(evs, e.Name))
			}
			delete(in, e.Name)
		}
	}
	return in, nil
}

func brief(evs []puppet.Ev, name string) []string {
	var s []string
	for _, e := range evs {
		if e.Name == name && (e.Kind == "join" || e.Kind == "update" || e.Kind == "leave") {
			s = append(s, fmt.Sprintf("%s@%.3fs", e.Kind, e.T.Seconds()))
		}
	}
	return s
}

// CheckEventLog verifies, at a quiescent point, that replaying the node's
// event log yields exactly Members() with the metadata/address of the last
// join/update event, and that no callbacks overlapped.
func CheckEventLog(m *memberlist.Memberlist, rec *puppet.Recorder, who string) error {
	if rec.Overlaps.Load() != 0 {
		return fmt.Errorf("%s: %d membership event callbacks ran concurrently", who, rec.Overlaps.Load())
	}
	evs := rec.Events()
	in, err := ReplayEvents(evs)
	if err != nil {
		return fmt.Errorf("%s: %v", who, err)
	}
	mem := map[string]*memberlist.Node{}
	for _, n := range m.Members() {
		mem[n.Name] = n
	}
	for name, e := range in {
		n, ok := mem[name]
		if !ok {
			return fmt.Errorf("%s: event log says %s is a member (last %s at %.3fs) but Members() does not list it; log %v", who, name, e.Kind, e.T.Seconds(), brief(evs, name))
		}
		if RaceBuild {
			// Members() hands out pointers into the node's table; reading their fields is only safe at a quiescent
			// point, which the race detector cannot know. The field comparison is done by the ordinary build.
			continue
		}
		if string(n.Meta) != string(e.Meta) {
			return fmt.Errorf("%s: Members() shows %s with meta %q but the last %s event carried %q; log %v", who, name, n.Meta, e.Kind, e.Meta, brief(evs, name))
		}
		if net.IP(n.Addr).String() != e.Addr || n.Port != e.Port {
			return fmt.Errorf("%s: Members() shows %s at %v:%d but the last %s event carried %s:%d", who, name, net.IP(n.Addr), n.Port, e.Kind, e.Addr, e.Port)
		}
	}
	for name := range mem {
		if _, ok := in[name]; !ok {
			return fmt.Errorf("%s: Members() lists %s but the event log has no pending join for it; log %v", who, name, brief(evs, name))
		}
	}
	return nil
}

// SuspicionTimeoutModel re-derives the minimum suspicion timeout
// SuspicionMult * max(1, log10(n)) * ProbeInterval with the documented
// millisecond-level truncation of the scale factor.
func SuspicionTimeoutModel(mult, n int, interval time.Duration) time.Duration {
	scale := 1.0
	if n >= 1 {
		l := log10(float64(n))
		if l > 1 {
			scale = l
		}
	}
	return time.Duration(mult) * time.Duration(scale*1000) * interval / 1000
}

func log10(x float64) float64 { return math.Log(x) / math.Ln10 }

// Dump reads a node's whole table through an empty anti-entropy push/pull
// dialled from a throw-away observer endpoint.
func (c *Cluster) Dump(n *Node) (map[string]puppet.NodeRec, error) {
	c.obsSeq++
	if c.obs == nil {
		c.obs = c.Net.NewEndpoint("10.250.250.251", 7946, obsHandler{})
	}
	return puppet.DumpVia(c.obs, n.Addr(), n.Conf, c.Seed+uint64(c.obsSeq))
}

type obsHandler struct{}

func (obsHandler) OnPacket(*simnet.Endpoint, string, []byte)              {}
func (obsHandler) OnStream(_ *simnet.Endpoint, _ string, cn *simnet.Conn) { cn.Close() }
