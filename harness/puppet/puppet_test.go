package puppet

import (
	"testing"
	"testing/synctest"
	"time"

	"verif/harness/wire"
)

func TestPuppetSmoke(t *testing.T) {
	for _, conf := range []NodeConf{
		{Name: "n0", IP: "10.0.0.1", Port: 7946, IndirectChecks: 3},
		{Name: "n0", IP: "10.0.0.1", Port: 7946, IndirectChecks: 3, Label: "blue", Keys: [][]byte{[]byte("0123456789abcdef")}},
		{Name: "n0", IP: "10.0.0.1", Port: 7946, IndirectChecks: 3, ProtocolVersion: 1, Keys: [][]byte{[]byte("0123456789abcdef")}},
	} {
		synctest.Test(t, func(t *testing.T) {
			p, err := New(1, conf)
			if err != nil {
				t.Fatal(err)
			}
			pe := p.AddPeer("x1", "10.0.0.2", 7946, []uint8{1, 5, 2, 0, 0, 0})
			p.Inject(pe.Addr(), [][]byte{wire.Encode(wire.AliveMsg, &wire.Alive{Incarnation: 3, Node: "x1", Addr: pe.IPBytes(), Port: 7946, Meta: []byte("m"), Vsn: pe.Vsn})}, Carrier{Kind: "compound"})
			d, err := p.Dump()
			if err != nil {
				t.Fatal(err)
			}
			if d["x1"].Inc != 3 || d["x1"].State != wire.StateAlive || d["n0"].State != wire.StateAlive {
				t.Fatalf("dump %v", d)
			}
			time.Sleep(5 * time.Second)
			out, _, err := p.OutboundSince(0)
			if err != nil {
				t.Fatal(err)
			}
			pings := 0
			for _, o := range out {
				if o.Leaf.Type == wire.PingMsg {
					pings++
				}
			}
			if pings < 3 {
				t.Fatalf("expected probes, got %d leaves %v", len(out), out)
			}
			if got := p.MemberNames(); len(got) != 2 {
				t.Fatalf("members %v; log %v", got, p.Log.Lines)
			}
			t.Logf("events %v; %d outbound leaves; health %d", p.Rec.Events(), len(out), p.M.GetHealthScore())
			p.Shutdown()
			time.Sleep(10 * time.Second)
		})
	}
}
