package puppet

import (
	"fmt"
	"time"

	"verif/harness/simnet"
	"verif/harness/wire"
)

// Claim is one membership claim about a node, in wire terms.
type Claim struct {
	Kind string // alive | suspect | dead | left | pp-alive | pp-suspect | pp-dead | pp-left
	Node string
	Inc  uint32
	Addr []byte  `json:",omitempty"` // alive / pp
	Port uint16  `json:",omitempty"`
	Meta []byte  `json:",omitempty"`
	Vsn  []uint8 `json:",omitempty"`
	From string  `json:",omitempty"` // suspect / dead: accuser
}

// Strength in the SWIM precedence order: alive 0 < suspect 1 < dead = left 2.
func Strength(state int) int {
	switch state {
	case wire.StateAlive:
		return 0
	case wire.StateSuspect:
		return 1
	default:
		return 2
	}
}

// ClaimStrength is the strength a claim kind asserts.
func ClaimStrength(kind string) int {
	switch kind {
	case "alive", "pp-alive":
		return 0
	case "suspect", "pp-suspect":
		return 1
	}
	return 2
}

// IsPP says whether the claim travels as a push/pull entry.
func (c Claim) IsPP() bool { return len(c.Kind) > 3 && c.Kind[:3] == "pp-" }

// Leaf encodes a packet-borne claim.
func (c Claim) Leaf() []byte {
	switch c.Kind {
	case "alive":
		return wire.Encode(wire.AliveMsg, &wire.Alive{Incarnation: c.Inc, Node: c.Node, Addr: c.Addr, Port: c.Port, Meta: c.Meta, Vsn: c.Vsn})
	case "suspect":
		return wire.Encode(wire.SuspectMsg, &wire.Suspect{Incarnation: c.Inc, Node: c.Node, From: c.From})
	case "dead":
		return wire.Encode(wire.DeadMsg, &wire.Dead{Incarnation: c.Inc, Node: c.Node, From: c.From})
	case "left":
		return wire.Encode(wire.DeadMsg, &wire.Dead{Incarnation: c.Inc, Node: c.Node, From: c.Node})
	}
	panic("not a packet claim: " + c.Kind)
}

// Row encodes a push/pull-borne claim.
func (c Claim) Row() wire.PushNodeState {
	st := wire.StateAlive
	switch c.Kind {
	case "pp-suspect":
		st = wire.StateSuspect
	case "pp-dead":
		st = wire.StateDead
	case "pp-left":
		st = wire.StateLeft
	}
	return wire.PushNodeState{Name: c.Node, Addr: c.Addr, Port: c.Port, Meta: c.Meta, Incarnation: c.Inc, State: st, Vsn: c.Vsn}
}

func (c Claim) String() string {
	return fmt.Sprintf("%s{%s inc=%d addr=%x:%d meta=%x vsn=%x from=%s}", c.Kind, c.Node, c.Inc, c.Addr, c.Port, c.Meta, c.Vsn, c.From)
}

// PushPullTo performs a push/pull (as the dialer) against the real node from
// endpoint `from`, sending rows, and returns the node's reply (decoded) if any.
func (p *Puppet) PushPullTo(from *simnet.Endpoint, join bool, rows []wire.PushNodeState, userState []byte, compress bool) (*wire.StreamMsg, error) {
	req := p.StreamFrame(wire.PushPull(join, rows, userState), compress)
	reply, err, c := p.Exchange(from, req, 5*time.Second)
	if c != nil {
		defer c.Close()
	}
	p.Settle()
	if err != nil {
		return nil, err
	}
	cd := p.Codec
	if p.Conf.NoVerifyOut {
		cd.Keys = nil
	}
	sm, err := cd.DecodeStream(reply)
	if err != nil {
		return nil, err
	}
	return sm, nil
}

// InjectClaim delivers a claim through the given carrier: packet carriers go
// through Inject from address src; "pp-join"/"pp" carriers go through a
// push/pull dialled from endpoint ep.
func (p *Puppet) InjectClaim(c Claim, car Carrier, src string, ep *simnet.Endpoint) error {
	if c.IsPP() {
		_, err := p.PushPullTo(ep, car.Kind == "pp-join", []wire.PushNodeState{c.Row()}, nil, car.CRC)
		return err
	}
	p.Inject(src, [][]byte{c.Leaf()}, car)
	return nil
}

// IsGossipLeaf says whether an outbound leaf is a membership broadcast.
func IsGossipLeaf(l wire.Leaf) bool {
	return l.Type == wire.AliveMsg || l.Type == wire.SuspectMsg || l.Type == wire.DeadMsg
}

// DrainQueue sleeps until the node's broadcast queue is empty as far as the
// wire can tell: `quiet` consecutive gossip intervals without any membership
// broadcast leaving the node. Returns false if it did not become quiet.
func (p *Puppet) DrainQueue(quiet, maxIntervals int) bool {
	gi := p.MC.GossipInterval
	if gi <= 0 {
		return false
	}
	silent := 0
	for i := 0; i < maxIntervals; i++ {
		idx := p.TapLen()
		time.Sleep(gi)
		p.Settle()
		out, _, err := p.OutboundSince(idx)
		if err != nil {
			return false
		}
		busy := false
		for _, o := range out {
			if IsGossipLeaf(o.Leaf) {
				busy = true
			}
		}
		if busy {
			silent = 0
		} else {
			silent++
			if silent >= quiet {
				return true
			}
		}
	}
	return false
}
