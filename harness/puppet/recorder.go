package puppet

import (
	"bytes"
	"errors"
	"fmt"
	"net"
	"runtime"
	"sync"
	"sync/atomic"
	"time"

	"github.com/hashicorp/memberlist"
)

// Ev is one recorded delegate callback.
type Ev struct {
	T     time.Duration
	Kind  string // join | leave | update | conflict | msg | merge-remote | notify-merge | alive | ping-complete | local-state
	Name  string
	Addr  string
	Port  uint16
	Meta  []byte
	State int
	Other string // conflict: other address; notify-merge: summary
	Data  []byte
}

func (e Ev) String() string {
	return fmt.Sprintf("%8.3fs %s %s %s:%d meta=%x %s", e.T.Seconds(), e.Kind, e.Name, e.Addr, e.Port, e.Meta, e.Other)
}

// Recorder implements every memberlist delegate and records the callbacks.
type Recorder struct {
	start time.Time
	mu    sync.Mutex
	evs   []Ev

	inEvent    atomic.Int32
	Overlaps   atomic.Int32 // event callbacks that ran concurrently
	meta       []byte
	localState []byte
	userQ      [][]byte // pending user broadcasts handed out by GetBroadcasts
	HandedOut  [][]byte // what GetBroadcasts returned, in order
	HandedAt   []time.Duration
	ackPayload []byte
	fillExact  int // that many upcoming GetBroadcasts calls are answered with one message that uses the limit to the last byte
	fillSerial int

	// MergeVeto, when set, is consulted by NotifyMerge.
	MergeVeto func(peers []*memberlist.Node) error
	// AliveFilter, when set, is consulted by NotifyAlive.
	AliveFilter func(n *memberlist.Node) error
	// OnNodeMeta, when set, runs inside the next NodeMeta call (and is cleared).
	OnNodeMeta func()
	// BlockMsg, when set, makes NotifyMsg wait on it (to hold the packet handler).
	BlockMsg chan struct{}
	// holdEvent (see Hold), when set, makes the membership event about holdName wait on it; the
	// callback runs under the node lock, so this keeps the node lock held. Holding is
	// set while a callback is parked there.
	holdEvent chan struct{}
	holdName  string
	Holding   atomic.Int32
}

// Hold makes the next membership event about name park (under the node lock) until ch is closed.
func (r *Recorder) Hold(name string, ch chan struct{}) {
	r.mu.Lock()
	r.holdName, r.holdEvent = name, ch
	r.mu.Unlock()
}

// Unhold disarms Hold (a callback that is already parked keeps waiting for its channel).
func (r *Recorder) Unhold() { r.Hold("", nil) }

func NewRecorder() *Recorder { return &Recorder{start: time.Now()} }

func (r *Recorder) add(e Ev) {
	e.T = time.Since(r.start)
	r.mu.Lock()
	r.evs = append(r.evs, e)
	r.mu.Unlock()
}

// Events returns a copy of the log.
func (r *Recorder) Events() []Ev {
	r.mu.Lock()
	defer r.mu.Unlock()
	return append([]Ev(nil), r.evs...)
}

// Len returns the number of recorded callbacks.
func (r *Recorder) Len() int { r.mu.Lock(); defer r.mu.Unlock(); return len(r.evs) }

// Since returns the callbacks recorded at index >= i.
func (r *Recorder) Since(i int) []Ev {
	r.mu.Lock()
	defer r.mu.Unlock()
	if i > len(r.evs) {
		i = len(r.evs)
	}
	return append([]Ev(nil), r.evs[i:]...)
}

func (r *Recorder) SetMeta(b []byte)       { r.mu.Lock(); r.meta = b; r.mu.Unlock() }
func (r *Recorder) SetLocalState(b []byte) { r.mu.Lock(); r.localState = b; r.mu.Unlock() }
func (r *Recorder) SetAckPayload(b []byte) { r.mu.Lock(); r.ackPayload = b; r.mu.Unlock() }
func (r *Recorder) QueueUser(b []byte)     { r.mu.Lock(); r.userQ = append(r.userQ, b); r.mu.Unlock() }
func (r *Recorder) PendingUser() int       { r.mu.Lock(); defer r.mu.Unlock(); return len(r.userQ) }

func nodeEv(kind string, n *memberlist.Node) Ev {
	return Ev{Kind: kind, Name: n.Name, Addr: net.IP(n.Addr).String(), Port: n.Port, Meta: append([]byte(nil), n.Meta...), State: int(n.State)}
}

func (r *Recorder) event(kind string, n *memberlist.Node) {
	if r.inEvent.Add(1) != 1 {
		r.Overlaps.Add(1)
	}
	// widen the window for an unserialized concurrent callback
	runtime.Gosched()
	r.mu.Lock()
	h, hn := r.holdEvent, r.holdName
	r.mu.Unlock()
	if h != nil && n.Name == hn {
		r.Holding.Store(1)
		<-h
		r.Holding.Store(0)
	}
	r.add(nodeEv(kind, n))
	runtime.Gosched()
	r.inEvent.Add(-1)
}

// EventDelegate
func (r *Recorder) NotifyJoin(n *memberlist.Node)   { r.event("join", n) }
func (r *Recorder) NotifyLeave(n *memberlist.Node)  { r.event("leave", n) }
func (r *Recorder) NotifyUpdate(n *memberlist.Node) { r.event("update", n) }

// ConflictDelegate
func (r *Recorder) NotifyConflict(existing, other *memberlist.Node) {
	e := nodeEv("conflict", existing)
	e.Other = fmt.Sprintf("%s:%d", net.IP(other.Addr), other.Port)
	r.add(e)
}

// MergeDelegate
func (r *Recorder) NotifyMerge(peers []*memberlist.Node) error {
	var b bytes.Buffer
	for _, p := range peers {
		fmt.Fprintf(&b, "%s@%s:%d/%d ", p.Name, net.IP(p.Addr), p.Port, p.State)
	}
	r.add(Ev{Kind: "notify-merge", Other: b.String()})
	if r.MergeVeto != nil {
		return r.MergeVeto(peers)
	}
	return nil
}

// AliveDelegate
func (r *Recorder) NotifyAlive(n *memberlist.Node) error {
	if r.AliveFilter != nil {
		return r.AliveFilter(n)
	}
	return nil
}

// PingDelegate
func (r *Recorder) AckPayload() []byte {
	r.mu.Lock()
	defer r.mu.Unlock()
	return r.ackPayload
}
func (r *Recorder) NotifyPingComplete(other *memberlist.Node, rtt time.Duration, payload []byte) {
	r.add(Ev{Kind: "ping-complete", Name: other.Name, Data: append([]byte(nil), payload...), Other: rtt.String()})
}

// Delegate
func (r *Recorder) NodeMeta(limit int) []byte {
	r.mu.Lock()
	h := r.OnNodeMeta
	r.OnNodeMeta = nil
	r.mu.Unlock()
	if h != nil {
		h() // once: the first call is the one Create makes while the node starts up
	}
	r.mu.Lock()
	defer r.mu.Unlock()
	return r.meta
}
func (r *Recorder) NotifyMsg(b []byte) {
	r.add(Ev{Kind: "msg", Data: append([]byte(nil), b...)})
	if r.BlockMsg != nil {
		<-r.BlockMsg
	}
}

// FillExact makes the next n GetBroadcasts calls return one message of exactly limit-overhead bytes (a delegate that
// uses what it is offered to the last byte).
func (r *Recorder) FillExact(n int) { r.mu.Lock(); r.fillExact = n; r.mu.Unlock() }

func (r *Recorder) GetBroadcasts(overhead, limit int) [][]byte {
	r.mu.Lock()
	defer r.mu.Unlock()
	if r.fillExact > 0 && limit-overhead >= 4 {
		r.fillExact--
		r.fillSerial++
		m := make([]byte, limit-overhead)
		for i := range m {
			m[i] = byte(r.fillSerial*31 + i*7) // incompressible enough, distinct per message
		}
		m[0], m[1], m[2], m[3] = 'F', 'X', byte(r.fillSerial), byte(r.fillSerial>>8)
		r.HandedOut = append(r.HandedOut, m)
		r.HandedAt = append(r.HandedAt, time.Since(r.start))
		return [][]byte{m}
	}
	var out [][]byte
	used := 0
	rest := r.userQ[:0:0]
	for _, m := range r.userQ {
		if used+overhead+len(m) <= limit {
			used += overhead + len(m)
			out = append(out, m)
			r.HandedOut = append(r.HandedOut, m)
			r.HandedAt = append(r.HandedAt, time.Since(r.start))
		} else {
			rest = append(rest, m)
		}
	}
	r.userQ = rest
	return out
}
func (r *Recorder) LocalState(join bool) []byte {
	r.mu.Lock()
	defer r.mu.Unlock()
	return r.localState
}
func (r *Recorder) MergeRemoteState(buf []byte, join bool) {
	o := "anti-entropy"
	if join {
		o = "join"
	}
	r.add(Ev{Kind: "merge-remote", Data: append([]byte(nil), buf...), Other: o})
}

var ErrVeto = errors.New("vetoed by the harness")
