// Package puppet runs one real memberlist node on a simnet and plays every
// peer from the harness. It must be used inside a testing/synctest bubble.
package puppet

import (
	"crypto/sha256"
	"encoding/binary"
	"fmt"
	"io"
	"net"
	"sort"
	"sync"
	"sync/atomic"
	"testing/synctest"
	"time"

	"github.com/hashicorp/memberlist"

	"verif/harness/simnet"
	"verif/harness/wire"
)

// NodeConf is the JSON-able configuration of a real node.
type NodeConf struct {
	Name string
	IP   string
	Port int

	ProtocolVersion uint8 `json:",omitempty"` // 0 = default (2)
	DelegateVsn     [3]uint8

	Label     string `json:",omitempty"`
	SkipLabel bool   `json:",omitempty"`

	Keys         [][]byte `json:",omitempty"` // Keys[0] is the primary
	EmptyKeyring bool     `json:",omitempty"` // a keyring without keys (encryption starts when a key is installed at run time)
	NoVerifyIn   bool     `json:",omitempty"`
	NoVerifyOut  bool     `json:",omitempty"`
	NoCompress   bool     `json:",omitempty"`

	ProbeIntervalMs  int      `json:",omitempty"` // 0 = 1000
	ProbeTimeoutMs   int      `json:",omitempty"` // 0 = 500
	GossipIntervalMs int      `json:",omitempty"` // 0 = 200; <0 disables
	PushPullMs       int      `json:",omitempty"` // 0 = disabled in puppets
	GossipToDeadMs   int      `json:",omitempty"` // 0 = 30000
	ReclaimMs        int      `json:",omitempty"`
	TCPTimeoutMs     int      `json:",omitempty"` // 0 = 10000
	GossipNodes      int      `json:",omitempty"` // 0 = 3
	IndirectChecks   int      // as is
	RetransmitMult   int      `json:",omitempty"` // 0 = 4
	SuspicionMult    int      `json:",omitempty"` // 0 = 4
	SuspicionMaxMult int      `json:",omitempty"` // 0 = 6
	AwarenessMax     int      `json:",omitempty"` // 0 = 8
	HandoffDepth     int      `json:",omitempty"` // 0 = 1024
	UDPBufferSize    int      `json:",omitempty"` // 0 = 1400
	DisableTcpPings  bool     `json:",omitempty"`
	NoTcpPingsFor    []string `json:",omitempty"` // DisableTcpPingsForNode answers true for these names
	CIDRs            []string `json:",omitempty"`
	Meta             []byte   `json:",omitempty"`
	NoDelegate       bool     `json:",omitempty"`
	WithMerge        bool     `json:",omitempty"`
	WithAlive        bool     `json:",omitempty"`
	WithPing         bool     `json:",omitempty"`
	NewTimeFormat    bool     `json:",omitempty"`
	RequireNodeNames bool     `json:",omitempty"`
}

func ms(v, def int) time.Duration {
	if v == 0 {
		v = def
	}
	if v < 0 {
		return 0
	}
	return time.Duration(v) * time.Millisecond
}

func or(v, def int) int {
	if v == 0 {
		return def
	}
	return v
}

// EncVsn is the encryption version the node uses when sending.
func (c NodeConf) EncVsn() byte {
	if c.ProtocolVersion == 1 {
		return 0
	}
	return 1
}

// PV is the effective protocol version.
func (c NodeConf) PV() uint8 {
	if c.ProtocolVersion == 0 {
		return 2
	}
	return c.ProtocolVersion
}

// Vsn is the version vector the node advertises.
func (c NodeConf) Vsn() []uint8 {
	return []uint8{1, 5, c.PV(), c.DelegateVsn[0], c.DelegateVsn[1], c.DelegateVsn[2]}
}

// Build turns the NodeConf into a memberlist.Config bound to ep and rec.
func (c NodeConf) Build(ep *simnet.Endpoint, rec *Recorder, logw io.Writer) (*memberlist.Config, error) {
	conf := memberlist.DefaultLANConfig()
	conf.Name = c.Name
	conf.Transport = ep
	conf.BindAddr = c.IP
	conf.BindPort = c.Port
	conf.AdvertiseAddr = c.IP
	conf.AdvertisePort = c.Port
	conf.ProtocolVersion = c.PV()
	conf.DelegateProtocolMin, conf.DelegateProtocolMax, conf.DelegateProtocolVersion = c.DelegateVsn[0], c.DelegateVsn[1], c.DelegateVsn[2]
	conf.Label = c.Label
	conf.SkipInboundLabelCheck = c.SkipLabel
	if len(c.Keys) > 0 {
		kr, err := memberlist.NewKeyring(c.Keys, c.Keys[0])
		if err != nil {
			return nil, err
		}
		conf.Keyring = kr
	}
	if len(c.Keys) == 0 && c.EmptyKeyring {
		kr, err := memberlist.NewKeyring(nil, nil)
		if err != nil {
			return nil, err
		}
		conf.Keyring = kr
	}
	conf.GossipVerifyIncoming = !c.NoVerifyIn
	conf.GossipVerifyOutgoing = !c.NoVerifyOut
	conf.EnableCompression = !c.NoCompress
	conf.ProbeInterval = ms(c.ProbeIntervalMs, 1000)
	conf.ProbeTimeout = ms(c.ProbeTimeoutMs, 500)
	conf.GossipInterval = ms(c.GossipIntervalMs, 200)
	conf.PushPullInterval = ms(c.PushPullMs, -1)
	conf.GossipToTheDeadTime = ms(c.GossipToDeadMs, 30000)
	conf.DeadNodeReclaimTime = ms(c.ReclaimMs, -1)
	conf.TCPTimeout = ms(c.TCPTimeoutMs, 10000)
	conf.GossipNodes = or(c.GossipNodes, 3)
	conf.IndirectChecks = c.IndirectChecks
	conf.RetransmitMult = or(c.RetransmitMult, 4)
	conf.SuspicionMult = or(c.SuspicionMult, 4)
	conf.SuspicionMaxTimeoutMult = or(c.SuspicionMaxMult, 6)
	conf.AwarenessMaxMultiplier = or(c.AwarenessMax, 8)
	conf.HandoffQueueDepth = or(c.HandoffDepth, 1024)
	conf.UDPBufferSize = or(c.UDPBufferSize, 1400)
	conf.DisableTcpPings = c.DisableTcpPings
	if len(c.NoTcpPingsFor) > 0 {
		names := append([]string(nil), c.NoTcpPingsFor...)
		conf.DisableTcpPingsForNode = func(n string) bool {
			for _, x := range names {
				if x == n {
					return true
				}
			}
			return false
		}
	}
	conf.MsgpackUseNewTimeFormat = c.NewTimeFormat
	conf.RequireNodeNames = c.RequireNodeNames
	conf.QueueCheckInterval = time.Hour
	if len(c.CIDRs) > 0 {
		nets, err := memberlist.ParseCIDRs(c.CIDRs)
		if err != nil {
			return nil, err
		}
		conf.CIDRsAllowed = nets
	}
	if logw == nil {
		logw = io.Discard
	}
	conf.LogOutput = logw
	rec.SetMeta(c.Meta)
	conf.Events = rec
	conf.Conflict = rec
	if !c.NoDelegate {
		conf.Delegate = rec
	}
	if c.WithMerge {
		conf.Merge = rec
	}
	if c.WithAlive {
		conf.Alive = rec
	}
	if c.WithPing {
		conf.Ping = rec
	}
	return conf, nil
}

// Codec returns the wire codec a peer of this node needs.
func (c NodeConf) Codec() wire.Codec { return wire.Codec{Label: c.Label, Keys: c.Keys} }

// ---------------------------------------------------------------------------

// Peer is a scripted member played by the harness.
type Peer struct {
	P    *Puppet
	Name string
	IP   string
	Port int
	Vsn  []uint8
	EP   *simnet.Endpoint

	mu sync.Mutex
	// behaviour switches
	AckPings  bool // answer UDP pings addressed to this peer
	AckTCP    bool // answer TCP fallback pings
	Relay     bool // serve indirect ping requests like a healthy relay would
	ServePP   bool // answer push/pull requests with State
	State     []wire.PushNodeState
	UserState []byte
	// OnLeaf, when set, sees every decoded inbound leaf first; returning true
	// suppresses the default behaviour for it.
	OnLeaf func(from string, l wire.Leaf) bool
	// OnConn, when set, takes over inbound streams entirely.
	OnConn func(from string, c *simnet.Conn)

	Inbound []InLeaf
}

// InLeaf is one message a scripted peer received.
type InLeaf struct {
	T    time.Duration
	From string
	Leaf wire.Leaf
	Info *wire.PacketInfo
}

func (pe *Peer) Addr() string { return net.JoinHostPort(pe.IP, fmt.Sprint(pe.Port)) }

func (pe *Peer) IPBytes() []byte {
	ip := net.ParseIP(pe.IP)
	if v4 := ip.To4(); v4 != nil {
		return []byte(v4)
	}
	return []byte(ip)
}

// Puppet is one real node plus its scripted world.
type Puppet struct {
	Net   *simnet.Network
	Conf  NodeConf
	MC    *memberlist.Config
	M     *memberlist.Memberlist
	EP    *simnet.Endpoint
	Rec   *Recorder
	Codec wire.Codec
	Peers map[string]*Peer
	Obs   *simnet.Endpoint // observer endpoint used for dumps
	nonce uint64
	Seed  uint64

	phase     time.Duration
	phaseOK   bool
	phaseScan int
	Log       *LogBuf
}

// LogBuf keeps the node's log lines (bounded).
type LogBuf struct {
	mu    sync.Mutex
	Lines []string
	// OnLine, when set, is called with every line, on the goroutine that logs it and before Write returns (a slow log
	// destination: whatever the node does between two statements around a log call can be made to take a while).
	OnLine func(string)
}

// SetOnLine installs or removes the line hook.
func (l *LogBuf) SetOnLine(f func(string)) { l.mu.Lock(); l.OnLine = f; l.mu.Unlock() }

// Snapshot returns a copy of the captured log lines.
func (l *LogBuf) Snapshot() []string {
	l.mu.Lock()
	defer l.mu.Unlock()
	return append([]string(nil), l.Lines...)
}

func (l *LogBuf) Write(p []byte) (int, error) {
	l.mu.Lock()
	if len(l.Lines) < 4000 {
		l.Lines = append(l.Lines, string(p))
	}
	h := l.OnLine
	l.mu.Unlock()
	if h != nil {
		h(string(p))
	}
	return len(p), nil
}

// New creates the network and the real node (Create is called).
func New(seed uint64, c NodeConf) (*Puppet, error) {
	n := simnet.New(seed)
	return NewOn(n, seed, c)
}

// NewOn creates the real node on an existing network.
func NewOn(n *simnet.Network, seed uint64, c NodeConf) (*Puppet, error) {
	return NewOnPre(n, seed, c, nil)
}

// NewOnPre is NewOn with a hook that runs after the endpoint and the recorder exist and before Create is called (the
// listeners of a node are running while Create is still asking its delegate for the metadata, so traffic can arrive
// during start-up; see Recorder.OnNodeMeta).
func NewOnPre(n *simnet.Network, seed uint64, c NodeConf, pre func(*Puppet)) (*Puppet, error) {
	p := &Puppet{Net: n, Conf: c, Rec: NewRecorder(), Codec: c.Codec(), Peers: map[string]*Peer{}, Seed: seed, Log: &LogBuf{}}
	p.EP = n.NewEndpoint(c.IP, c.Port, nil)
	mc, err := c.Build(p.EP, p.Rec, p.Log)
	if err != nil {
		return nil, err
	}
	p.MC = mc
	if pre != nil {
		pre(p)
	}
	m, err := memberlist.Create(mc)
	if err != nil {
		return nil, err
	}
	p.M = m
	p.Obs = n.NewEndpoint("10.250.250.250", 7946, &obsHandler{})
	return p, nil
}

type obsHandler struct{}

func (*obsHandler) OnPacket(*simnet.Endpoint, string, []byte)             {}
func (*obsHandler) OnStream(_ *simnet.Endpoint, _ string, c *simnet.Conn) { c.Close() }

// Addr of the real node.
func (p *Puppet) Addr() string { return p.EP.Addr() }

// Nonce returns a fresh deterministic nonce.
func (p *Puppet) Nonce() []byte {
	n := atomic.AddUint64(&p.nonce, 1) // scripted peers answer from their own goroutines
	var b [16]byte
	binary.LittleEndian.PutUint64(b[:], p.Seed)
	binary.LittleEndian.PutUint64(b[8:], n)
	h := sha256.Sum256(b[:])
	return h[:12]
}

// AddPeer registers a scripted peer (it is not yet known to the node).
func (p *Puppet) AddPeer(name, ip string, port int, vsn []uint8) *Peer {
	pe := &Peer{P: p, Name: name, IP: ip, Port: port, Vsn: vsn, AckPings: true, AckTCP: true, Relay: true, ServePP: true}
	pe.EP = p.Net.NewEndpoint(ip, port, pe)
	p.Peers[name] = pe
	return pe
}

// Settle lets in-flight packets arrive and the node finish processing them.
func (p *Puppet) Settle() {
	time.Sleep(2 * time.Millisecond)
	synctest.Wait()
}

// Shutdown stops the real node and lets its goroutines drain.
func (p *Puppet) Shutdown() {
	_ = p.M.Shutdown()
}

// --- packing -------------------------------------------------------------------

// Carrier says how leaves are wrapped before the outer (crc/encrypt/label) layers.
type Carrier struct {
	Kind string // single | compound | compress | compress-compound | compound-compress
	CRC  bool
}

// PackPlain builds the plaintext payload(s) for parts under a carrier. With
// "single" each part becomes its own packet.
func PackPlain(parts [][]byte, c Carrier) [][]byte {
	var out [][]byte
	switch c.Kind {
	case "compound":
		out = [][]byte{wire.Compound(parts)}
	case "compress":
		for _, pt := range parts {
			out = append(out, wire.CompressWrap(pt))
		}
	case "compress-compound": // compress(compound(parts))
		out = [][]byte{wire.CompressWrap(wire.Compound(parts))}
	case "compound-compress": // compound(compress(part)...)
		var cp [][]byte
		for _, pt := range parts {
			cp = append(cp, wire.CompressWrap(pt))
		}
		out = [][]byte{wire.Compound(cp)}
	default:
		out = append(out, parts...)
	}
	if c.CRC {
		for i := range out {
			out[i] = wire.CRCWrap(out[i])
		}
	}
	return out
}

// Outer applies the node's encryption (primary key) and label.
func (p *Puppet) Outer(plain []byte) []byte {
	if p.Conf.SkipLabel {
		// the node's inbound label check is delegated to an outer layer that has already removed the header: traffic
		// arrives without one, sealed with the label as associated data
		if len(p.Conf.Keys) > 0 {
			return wire.Seal(p.Conf.EncVsn(), p.Conf.Keys[0], p.Nonce(), plain, []byte(p.Conf.Label))
		}
		return plain
	}
	return p.OuterWith(plain, p.Conf.Keys, p.Conf.EncVsn(), p.Conf.Label)
}

// OuterWith applies encryption with keys[0] (if any) and the label header.
func (p *Puppet) OuterWith(plain []byte, keys [][]byte, vsn byte, label string) []byte {
	b := plain
	if len(keys) > 0 {
		b = wire.Seal(vsn, keys[0], p.Nonce(), plain, []byte(label))
	}
	return wire.LabelWrap(b, label)
}

// Inject sends leaves from a source address to the node under the carrier,
// with the node's own outer layers, and settles.
func (p *Puppet) Inject(from string, parts [][]byte, c Carrier) {
	for _, pl := range PackPlain(parts, c) {
		p.Net.SendFrom(from, p.Addr(), p.Outer(pl))
	}
	p.Settle()
}

// InjectRaw sends raw bytes as one packet and settles.
func (p *Puppet) InjectRaw(from string, b []byte) {
	p.Net.SendFrom(from, p.Addr(), b)
	p.Settle()
}

// --- streams ---------------------------------------------------------------------

// StreamFrame builds what a dialer writes for a plaintext stream message:
// label header + (compress) + (encrypt).
func (p *Puppet) StreamFrame(plain []byte, compress bool) []byte {
	return p.StreamFrameWith(plain, compress, p.Conf.Keys, p.Conf.EncVsn(), p.Conf.Label, !p.Conf.SkipLabel)
}

func (p *Puppet) StreamFrameWith(plain []byte, compress bool, keys [][]byte, vsn byte, label string, header bool) []byte {
	b := plain
	if compress {
		b = wire.CompressWrap(b)
	}
	if len(keys) > 0 {
		b = wire.StreamSeal(vsn, keys[0], p.Nonce(), b, label)
	}
	if header {
		b = wire.LabelWrap(b, label)
	}
	return b
}

// Exchange dials the node from `from`, writes req, half-closes nothing, and
// reads the reply until the node closes the stream or d elapses.
func (p *Puppet) Exchange(from *simnet.Endpoint, req []byte, d time.Duration) (reply []byte, err error, conn *simnet.Conn) {
	c, err := from.Dial(p.Addr(), time.Second)
	if err != nil {
		return nil, err, nil
	}
	if _, err := c.Write(req); err != nil {
		return nil, err, c
	}
	reply, rerr := c.ReadAllFor(d)
	if rerr == io.EOF {
		rerr = nil
	}
	return reply, rerr, c
}

// NodeRec is one row of a state dump.
type NodeRec struct {
	Name  string
	Addr  string
	Port  uint16
	Meta  string
	Inc   uint32
	State int
	Vsn   string
}

func (r NodeRec) String() string {
	return fmt.Sprintf("{%s %s:%d meta=%x inc=%d %s vsn=%x}", r.Name, r.Addr, r.Port, r.Meta, r.Inc, wire.StateName(r.State), r.Vsn)
}

// Dump performs an empty anti-entropy push/pull against the node and returns
// its whole table (including suspect/dead/left records), sorted by name.
// It merges nothing into the node.
func (p *Puppet) Dump() (map[string]NodeRec, error) {
	return p.DumpWith(p.Conf.Keys, p.Conf.Label)
}

func (p *Puppet) DumpWith(keys [][]byte, label string) (map[string]NodeRec, error) {
	req := p.StreamFrameWith(wire.PushPull(false, nil, nil), false, keys, p.Conf.EncVsn(), label, !p.Conf.SkipLabel)
	reply, err, c := p.Exchange(p.Obs, req, 5*time.Second)
	if c != nil {
		defer c.Close()
	}
	if err != nil {
		return nil, fmt.Errorf("dump: %w", err)
	}
	var cd wire.Codec
	if !p.Conf.NoVerifyOut {
		cd = wire.Codec{Label: label, Keys: keys}
	} else {
		cd = wire.Codec{Label: label}
	}
	sm, err := cd.DecodeStream(reply)
	if err != nil {
		return nil, fmt.Errorf("dump: cannot decode %d-byte reply: %w", len(reply), err)
	}
	if sm.Type != wire.PushPullMsg {
		return nil, fmt.Errorf("dump: reply is %s %+v", wire.TypeName(sm.Type), sm.V)
	}
	out := map[string]NodeRec{}
	for _, n := range sm.Nodes {
		out[n.Name] = NodeRec{Name: n.Name, Addr: net.IP(n.Addr).String(), Port: n.Port, Meta: string(n.Meta), Inc: n.Incarnation, State: n.State, Vsn: string(n.Vsn)}
	}
	synctest.Wait()
	return out, nil
}

// DumpVia performs the empty push/pull against an arbitrary node address.
func DumpVia(obs *simnet.Endpoint, addr string, conf NodeConf, nonceSeed uint64) (map[string]NodeRec, error) {
	var nb [8]byte
	binary.LittleEndian.PutUint64(nb[:], nonceSeed)
	h := sha256.Sum256(nb[:])
	b := wire.PushPull(false, nil, nil)
	if len(conf.Keys) > 0 {
		b = wire.StreamSeal(conf.EncVsn(), conf.Keys[0], h[:12], b, conf.Label)
	}
	b = wire.LabelWrap(b, conf.Label)
	c, err := obs.Dial(addr, time.Second)
	if err != nil {
		return nil, err
	}
	defer c.Close()
	if _, err := c.Write(b); err != nil {
		return nil, err
	}
	reply, rerr := c.ReadAllFor(5 * time.Second)
	if rerr != nil && rerr != io.EOF {
		return nil, rerr
	}
	cd := wire.Codec{Label: conf.Label}
	if !conf.NoVerifyOut {
		cd.Keys = conf.Keys
	}
	sm, err := cd.DecodeStream(reply)
	if err != nil {
		return nil, fmt.Errorf("dump: cannot decode %d-byte reply: %w", len(reply), err)
	}
	if sm.Type != wire.PushPullMsg {
		return nil, fmt.Errorf("dump: reply is %s %+v", wire.TypeName(sm.Type), sm.V)
	}
	out := map[string]NodeRec{}
	for _, n := range sm.Nodes {
		out[n.Name] = NodeRec{Name: n.Name, Addr: net.IP(n.Addr).String(), Port: n.Port, Meta: string(n.Meta), Inc: n.Incarnation, State: n.State, Vsn: string(n.Vsn)}
	}
	return out, nil
}

// MemberNames returns the sorted names in Members().
func (p *Puppet) MemberNames() []string {
	var out []string
	for _, n := range p.M.Members() {
		out = append(out, n.Name)
	}
	sort.Strings(out)
	return out
}

// MemberView returns name -> "addr:port meta" for Members().
func (p *Puppet) MemberView() map[string]string {
	out := map[string]string{}
	for _, n := range p.M.Members() {
		out[n.Name] = fmt.Sprintf("%s:%d meta=%x", net.IP(n.Addr), n.Port, n.Meta)
	}
	return out
}

// --- outbound tap ----------------------------------------------------------------

// OutLeaf is one decoded message the real node sent as a packet.
type OutLeaf struct {
	T    time.Duration
	Dst  string
	Leaf wire.Leaf
	Info *wire.PacketInfo
	Size int
}

// OutboundSince decodes every packet the real node sent since tap index i.
// A packet that the independent decoder cannot parse is returned as an error.
func (p *Puppet) OutboundSince(i int) ([]OutLeaf, int, error) {
	evs, n := p.Net.EventsSince(i)
	var out []OutLeaf
	cd := p.Codec
	if p.Conf.NoVerifyOut {
		cd.Keys = nil
	}
	for _, e := range evs {
		if (e.Kind != "pkt" && e.Kind != "pkt-lost") || e.Src != p.Addr() || e.Data == nil {
			continue
		}
		info, err := cd.DecodePacket(e.Data)
		if err != nil {
			return out, n, fmt.Errorf("packet from node to %s at %v (%d bytes) is not decodable by the independent decoder: %w", e.Dst, e.T, len(e.Data), err)
		}
		for _, l := range info.Leaves {
			out = append(out, OutLeaf{T: e.T, Dst: e.Dst, Leaf: l, Info: info, Size: len(e.Data)})
		}
	}
	return out, n, nil
}

// ProbePhase returns the phase of the node's probe ticker (virtual time modulo
// ProbeInterval at which probes start), read off the first direct ping seen on
// the wire; ok is false before any probe was sent.
func (p *Puppet) ProbePhase() (time.Duration, bool) {
	if p.phaseOK {
		return p.phase, true
	}
	evs, _ := p.Net.EventsSince(p.phaseScan)
	cd := p.Codec
	if p.Conf.NoVerifyOut {
		cd.Keys = nil
	}
	for i, e := range evs {
		if (e.Kind != "pkt" && e.Kind != "pkt-lost") || e.Src != p.Addr() || e.Data == nil {
			continue
		}
		info, err := cd.DecodePacket(e.Data)
		if err != nil {
			continue
		}
		for _, l := range info.Leaves {
			if pg, ok := l.V.(*wire.Ping); ok && pg.SourceNode == p.Conf.Name && e.Dst != "" {
				// a direct probe: addressed to the node it names
				if pe := p.Peers[pg.Node]; pe != nil && pe.Addr() == e.Dst {
					p.phase = e.T % p.MC.ProbeInterval
					p.phaseOK = true
					return p.phase, true
				}
			}
		}
		_ = i
	}
	p.phaseScan += len(evs)
	return 0, false
}

// AvoidProbeTick sleeps past the next probe tick if one falls within the next
// `window` of virtual time; it reports whether it slept.
func (p *Puppet) AvoidProbeTick(window time.Duration) bool {
	if p.MC.ProbeInterval <= 0 {
		return false
	}
	ph, ok := p.ProbePhase()
	if !ok {
		return false
	}
	now := p.Net.Now()
	pi := p.MC.ProbeInterval
	into := (now - ph) % pi
	if into < 0 {
		into += pi
	}
	left := pi - into
	if into == 0 {
		left = 0
	}
	if left <= window {
		time.Sleep(left + time.Millisecond)
		p.Settle()
		return true
	}
	// also stay clear of a tick that has just fired (its probe is being sent)
	if into < time.Millisecond {
		time.Sleep(time.Millisecond)
		p.Settle()
		return true
	}
	return false
}

// TapLen returns the current tap length.
func (p *Puppet) TapLen() int { _, n := p.Net.EventsSince(1 << 30); return n }

// --- scripted peer behaviour -----------------------------------------------------

func (pe *Peer) OnPacket(ep *simnet.Endpoint, from string, b []byte) {
	p := pe.P
	cd := p.Codec
	if p.Conf.NoVerifyOut {
		cd.Keys = nil
	}
	info, err := cd.DecodePacket(b)
	if err != nil {
		return
	}
	for _, l := range info.Leaves {
		pe.mu.Lock()
		pe.Inbound = append(pe.Inbound, InLeaf{T: p.Net.Now(), From: from, Leaf: l, Info: info})
		hook := pe.OnLeaf
		pe.mu.Unlock()
		if hook != nil && hook(from, l) {
			continue
		}
		switch v := l.V.(type) {
		case *wire.Ping:
			if !pe.AckPings || (v.Node != "" && v.Node != pe.Name) {
				continue
			}
			dst := from
			if len(v.SourceAddr) > 0 && v.SourcePort > 0 {
				dst = net.JoinHostPort(net.IP(v.SourceAddr).String(), fmt.Sprint(v.SourcePort))
			}
			pe.SendLeaves(dst, [][]byte{wire.Encode(wire.AckRespMsg, &wire.Ack{SeqNo: v.SeqNo})}, Carrier{})
		case *wire.IndirectPing:
			if !pe.Relay {
				continue
			}
			dst := from
			if len(v.SourceAddr) > 0 && v.SourcePort > 0 {
				dst = net.JoinHostPort(net.IP(v.SourceAddr).String(), fmt.Sprint(v.SourcePort))
			}
			// a healthy relay: the target answers iff it is a scripted peer that acks
			target := p.Peers[v.Node]
			if target != nil && target.AckPings {
				seq := v.SeqNo
				time.AfterFunc(time.Millisecond, func() {
					pe.SendLeaves(dst, [][]byte{wire.Encode(wire.AckRespMsg, &wire.Ack{SeqNo: seq})}, Carrier{})
				})
			} else if v.Nack {
				seq := v.SeqNo
				time.AfterFunc(p.MC.ProbeTimeout, func() {
					pe.SendLeaves(dst, [][]byte{wire.Encode(wire.NackRespMsg, &wire.Nack{SeqNo: seq})}, Carrier{})
				})
			}
		}
	}
}

// SendLeaves sends parts from this peer with the node's outer layers (no settle).
func (pe *Peer) SendLeaves(dst string, parts [][]byte, c Carrier) {
	for _, pl := range PackPlain(parts, c) {
		pe.EP.Send(dst, pe.P.Outer(pl))
	}
}

// Self returns this peer's own push/pull row.
func (pe *Peer) Self(inc uint32, state int, meta []byte) wire.PushNodeState {
	return wire.PushNodeState{Name: pe.Name, Addr: pe.IPBytes(), Port: uint16(pe.Port), Meta: meta, Incarnation: inc, State: state, Vsn: pe.Vsn}
}

func (pe *Peer) OnStream(ep *simnet.Endpoint, from string, c *simnet.Conn) {
	pe.mu.Lock()
	hook := pe.OnConn
	pe.mu.Unlock()
	if hook != nil {
		hook(from, c)
		return
	}
	defer c.Close()
	p := pe.P
	// read one message: label header + frame
	buf, _ := readMessage(c, p, 2*time.Second)
	if buf == nil {
		return
	}
	rest, _, err := wire.LabelSplit(buf)
	if err != nil {
		return
	}
	cd := p.Codec
	if p.Conf.NoVerifyOut {
		cd.Keys = nil
	}
	sm, err := cd.DecodeStream(rest)
	if err != nil {
		return
	}
	switch sm.Type {
	case wire.PingMsg:
		if pe.AckTCP {
			pg := sm.V.(*wire.Ping)
			_, _ = c.Write(p.StreamFrameWith(wire.Encode(wire.AckRespMsg, &wire.Ack{SeqNo: pg.SeqNo}), false, p.Conf.Keys, p.Conf.EncVsn(), p.Conf.Label, false))
		}
	case wire.PushPullMsg:
		if pe.ServePP {
			pe.mu.Lock()
			st := append([]wire.PushNodeState(nil), pe.State...)
			us := pe.UserState
			pe.mu.Unlock()
			_, _ = c.Write(p.StreamFrameWith(wire.PushPull(false, st, us), false, p.Conf.Keys, p.Conf.EncVsn(), p.Conf.Label, false))
		}
	}
}

// readMessage reads one complete stream message from the node: it reads until
// the frame is complete (encrypted: by its length prefix; plain: until the
// writer pauses for 5ms of virtual time) or d elapses.
func readMessage(c *simnet.Conn, p *Puppet, d time.Duration) ([]byte, error) {
	deadline := time.Now().Add(d)
	var out []byte
	tmp := make([]byte, 65536)
	for {
		// first wait up to the deadline for any byte, afterwards only briefly
		wait := time.Until(deadline)
		if len(out) > 0 {
			wait = 5 * time.Millisecond
		}
		if wait <= 0 {
			return out, nil
		}
		_ = c.SetReadDeadline(time.Now().Add(wait))
		n, err := c.Read(tmp)
		out = append(out, tmp[:n]...)
		if err != nil {
			if len(out) > 0 {
				return out, nil
			}
			return nil, err
		}
	}
}

// ReadMessage is the exported form for property packages.
func ReadMessage(c *simnet.Conn, p *Puppet, d time.Duration) ([]byte, error) {
	return readMessage(c, p, d)
}
