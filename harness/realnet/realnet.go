// Package realnet runs real memberlist nodes on real loopback sockets (memberlist's own NetTransport, created by
// Create itself when Config.Transport is nil), so that the code the simulated transport replaces - net_transport.go,
// the default-transport branch of newMemberlist, the node-aware shim - is also under the generated checks.
// Everything here is wall-clock; oracles built on it only assert what holds on every schedule.
package realnet

import (
	"fmt"
	"io"
	"log"
	"net"
	"os"
	"runtime"
	"strconv"
	"strings"
	"time"

	"github.com/hashicorp/memberlist"

	"verif/harness/puppet"
)

// Mode selects how the transport is obtained.
const (
	ModeDefault = 0 // Config.Transport == nil: Create builds the NetTransport (dynamic port)
	ModeOwn     = 1 // the caller builds a NetTransport and hands it over (node aware)
	ModeShim    = 2 // the caller's NetTransport is wrapped so that only the plain Transport interface is visible
)

// Node is one real node on loopback.
type Node struct {
	M    *memberlist.Memberlist
	Conf *memberlist.Config
	Rec  *puppet.Recorder
	Log  *puppet.LogBuf
	Port int
	NC   puppet.NodeConf
}

func (n *Node) Addr() string { return fmt.Sprintf("127.0.0.1:%d", n.Port) }

// plainTransport hides NodeAwareTransport (and the ingestion interface) of the wrapped transport.
type plainTransport struct{ t *memberlist.NetTransport }

func (p plainTransport) FinalAdvertiseAddr(ip string, port int) (net.IP, int, error) {
	return p.t.FinalAdvertiseAddr(ip, port)
}
func (p plainTransport) WriteTo(b []byte, addr string) (time.Time, error) {
	return p.t.WriteTo(b, addr)
}
func (p plainTransport) PacketCh() <-chan *memberlist.Packet { return p.t.PacketCh() }
func (p plainTransport) DialTimeout(addr string, d time.Duration) (net.Conn, error) {
	return p.t.DialTimeout(addr, d)
}
func (p plainTransport) StreamCh() <-chan net.Conn { return p.t.StreamCh() }
func (p plainTransport) Shutdown() error           { return p.t.Shutdown() }

// Start creates a node. port 0 = dynamic. secretKey: the primary key is given as Config.SecretKey instead of inside the keyring.
func Start(c puppet.NodeConf, mode int, port int, secretKey bool) (*Node, error) {
	rec := puppet.NewRecorder()
	lb := &puppet.LogBuf{}
	c.IP = "127.0.0.1"
	c.Port = port
	keys := c.Keys
	if secretKey && len(keys) > 0 {
		c.Keys = keys[1:]
		if len(c.Keys) == 0 {
			c.Keys = nil
		}
	}
	conf, err := c.Build(nil, rec, lb)
	if err != nil {
		return nil, err
	}
	c.Keys = keys
	if secretKey && len(keys) > 0 {
		conf.SecretKey = keys[0]
	}
	conf.Transport = nil
	conf.AdvertiseAddr = ""
	conf.AdvertisePort = port
	if mode != ModeDefault {
		nt, err := memberlist.NewNetTransport(&memberlist.NetTransportConfig{BindAddrs: []string{"127.0.0.1"}, BindPort: port, Logger: log.New(io.Writer(lb), "", 0)})
		if err != nil {
			return nil, err
		}
		p := nt.GetAutoBindPort()
		conf.BindPort, conf.AdvertisePort = p, p
		if mode == ModeShim {
			conf.Transport = plainTransport{nt}
		} else {
			conf.Transport = nt
		}
	}
	m, err := memberlist.Create(conf)
	if err != nil {
		if nt, ok := conf.Transport.(*memberlist.NetTransport); ok {
			_ = nt.Shutdown()
		}
		if pt, ok := conf.Transport.(plainTransport); ok {
			_ = pt.Shutdown()
		}
		return nil, err
	}
	n := &Node{M: m, Conf: conf, Rec: rec, Log: lb, Port: int(m.LocalNode().Port), NC: c}
	return n, nil
}

// PortsFree reports whether both the TCP and the UDP port can be bound right now.
func PortsFree(port int) error {
	tl, err := net.ListenTCP("tcp", &net.TCPAddr{IP: net.IPv4(127, 0, 0, 1), Port: port})
	if err != nil {
		return fmt.Errorf("tcp port %d still bound: %v", port, err)
	}
	_ = tl.Close()
	ul, err := net.ListenUDP("udp", &net.UDPAddr{IP: net.IPv4(127, 0, 0, 1), Port: port})
	if err != nil {
		return fmt.Errorf("udp port %d still bound: %v", port, err)
	}
	_ = ul.Close()
	return nil
}

// LibGoroutines lists the goroutines that have a frame inside package memberlist.
func LibGoroutines() []string {
	buf := make([]byte, 4<<20)
	buf = buf[:runtime.Stack(buf, true)]
	var out []string
	for _, g := range strings.Split(string(buf), "\n\n") {
		if strings.Contains(g, "github.com/hashicorp/memberlist.") {
			out = append(out, g)
		}
	}
	return out
}

// WaitNoLibGoroutines polls until no goroutine is inside memberlist or d has passed; it returns what was left.
func WaitNoLibGoroutines(d time.Duration) []string {
	deadline := time.Now().Add(d)
	for {
		l := LibGoroutines()
		if len(l) == 0 || time.Now().After(deadline) {
			return l
		}
		time.Sleep(20 * time.Millisecond)
	}
}

// OwnSocketsOnPort lists the sockets of this process that are still listening on (TCP) or bound to (UDP) the given
// loopback port. It reads the kernel's socket table and this process's descriptor table, so a port that some other
// process was handed by the kernel in the meantime is not mistaken for a leak.
func OwnSocketsOnPort(port int) []string {
	inodes := map[string]string{}
	scan := func(file, kind string, listenOnly bool) {
		b, err := os.ReadFile(file)
		if err != nil {
			return
		}
		for i, l := range strings.Split(string(b), "\n") {
			f := strings.Fields(l)
			if i == 0 || len(f) < 10 {
				continue
			}
			_, p, ok := strings.Cut(f[1], ":")
			if !ok {
				continue
			}
			v, err := strconv.ParseUint(p, 16, 32)
			if err != nil || int(v) != port {
				continue
			}
			if listenOnly && f[3] != "0A" {
				continue
			}
			inodes[f[9]] = kind + " " + f[1] + " st=" + f[3]
		}
	}
	scan("/proc/net/tcp", "tcp", true)
	scan("/proc/net/tcp6", "tcp6", true)
	scan("/proc/net/udp", "udp", false)
	scan("/proc/net/udp6", "udp6", false)
	if len(inodes) == 0 {
		return nil
	}
	var out []string
	ents, _ := os.ReadDir("/proc/self/fd")
	for _, e := range ents {
		t, err := os.Readlink("/proc/self/fd/" + e.Name())
		if err != nil || !strings.HasPrefix(t, "socket:[") {
			continue
		}
		ino := strings.TrimSuffix(strings.TrimPrefix(t, "socket:["), "]")
		if d, ok := inodes[ino]; ok {
			out = append(out, d)
		}
	}
	return out
}
