"""Per-property configuration for the vf driver: which test binaries, how many
shards / cases per tier, the non-triviality rule that the evidence reports and
the assumptions of each check."""

COMMON_ASSUMPTIONS = [
    "pgregory.net/rapid v1.3.0 generators and shrinking; Go 1.25 runtime",
    "absence of a counterexample among the generated cases is not a proof",
]

PROPS = {}

PROPS["C10"] = dict(
    title="Broadcast queue: no silent loss, exactly-once completion, bounded retransmits",
    pkg="./props/c10",
    level="exploration",
    rule=("rapid-generated sequences (0-40 ops) of QueueBroadcast(named incl. empty name / unique / plain with Invalidates) / a backlog of 40-300 broadcasts queued at once (so that the ordered structure behind the queue has more than one node; Prune then retains up to 100) / "
          "GetBroadcasts(overhead 0-3, limit 0-300 or unbounded) / Prune / Reset / NumQueued / change of NumNodes, "
          "RetransmitMult 0-4, started from a zero-value queue, compared after every step with a list-based reference "
          "model (NumQueued, Finished() count per broadcast, exact selection by pointer identity, size budget, one per name) "
          "and drained at the end; one broadcast in six carries a completion callback that, while it is still running, lets another goroutine call QueueBroadcast(same name) / Reset / Prune "
          "(2 ms are given): the queue must behave as if that call came after the operation that ran the callback; concurrent use: 2-4 goroutines run 1-6 operations each on one queue, "
          "20-200 times per plan (also under the race detector): no completion callback runs twice, NumQueued() at quiescence equals the number of broadcasts that have not completed, one per name, no retrieval "
          "returns a broadcast twice or exceeds its limit, Reset completes the rest; non-trivial = an enqueue after some item was re-inserted below its limit, or equal-length "
          "items coexisting, or Prune/Reset called; distinct = distinct operation sequences (hash of the plan)"),
    tests=[
        dict(name="model", run="^TestQueueModel$",
             quick=dict(shards=8, checks=12000, timeout=900),
             thorough=dict(shards=16, checks=60000, timeout=3000)),
        dict(name="conc", run="^TestQueueConcurrent$", quick=dict(shards=2, checks=150, timeout=600), thorough=dict(shards=4, checks=6000, timeout=1800)),
        dict(name="conc-race", run="^TestQueueConcurrent$", race=True, quick=dict(shards=2, checks=40, timeout=900), thorough=dict(shards=8, checks=200, timeout=1800)),
    ],
    required_labels=dict(both=["TestQueueModel/enqueue-after-reinsert", "TestQueueModel/equal-length-coexist",
                               "TestQueueModel/prune", "TestQueueModel/reset", "TestQueueModel/emptied-by-get",
                               "TestQueueModel/hook:requeue", "TestQueueModel/hook:reset", "TestQueueModel/hook:prune", "TestQueueModel/backlog>=64"]),
    assumptions=COMMON_ASSUMPTIONS + [
        "identity of returned messages is established by the backing-array pointer of Message() (the queue returns the slices it was given)",
        "a zero-length message whose overhead exactly exhausts the limit may or may not be returned (both readings of 'fits' accepted)",
    ],
)

PUPPET_ASSUMPTIONS = COMMON_ASSUMPTIONS + [
    "testing/synctest virtual clock (Go 1.25): time advances only when every goroutine of the bubble is durably blocked",
    "the harness-side wire mirror (harness/wire) encodes what a real peer would send and decodes what the node emits; it is exercised against the real node in every case",
    "the node's table is read through the protocol's own push/pull reply (an empty anti-entropy request merges nothing)",
]

PROPS["C01"] = dict(
    title="Stale or weaker membership claims never override newer knowledge",
    pkg="./props/c01",
    level="exploration",
    rule=("one real node, scripted peers; rapid draws initial views of three subjects (absent/alive/suspect/dead/left x incarnation 1-3), "
          "DeadNodeReclaimTime in {0,5s,1h}, GossipToTheDeadTime in {2s,30s}, answering or silent subjects, and 1-14 steps of sleeps "
          "(1ms-31s, around the suspicion/reclaim/reaping deadlines) and claims (alive/suspect/dead/left and the four push/pull row states; "
          "incarnation held-1/held/held+1/0/1/2^31/2^32-1; same or different address/port; same/other/empty metadata; version vector "
          "same/other/short/absent; accuser peer/subject/local/unknown; carrier single/compound/compressed/nested/CRC/push-pull join or not). "
          "Oracle per claim from dumps before/after: a stale or equal-rank claim leaves record, Members() entry and event log untouched "
          "(only the node's own timer transitions are allowed) and, on a drained queue, is not re-gossiped; across all consecutive dumps rank never "
          "decreases and fields change only with a strict rank increase, except the permitted reclaim. Wall-clock schedule (C06 package): a refutation accepted while the node is carrying out the expiry of its own suspicion keeps the member (the pending death notice has become stale). "
          "non-trivial = claim against a present record that is stale or equal-rank and not a permitted reclaim; distinct = distinct tuples "
          "(prior state, claim kind, relation, carrier, incarnation mode, address/port/meta/vsn variation, accuser, age class, prior address, mode)"),
    tests=[
        dict(name="stale", run="^TestStaleClaims$",
             quick=dict(shards=15, checks=270, timeout=600),
             thorough=dict(shards=15, checks=6400, timeout=3000)),
        # the node's own timer against a refutation that is accepted while the expiry is being carried out: the death notice it was about to issue is stale by then
        dict(name="window", pkg="./props/c06", run="^TestRefutationInsideExpiry$", quick=dict(shards=1, checks=14, timeout=600), thorough=dict(shards=2, checks=400, timeout=3000)),
        dict(name="stale-race", run="^TestStaleClaims$", race=True, quick=dict(shards=1, checks=40, timeout=900), thorough=dict(shards=6, checks=250, timeout=3000)),
    ],
    assumptions=PUPPET_ASSUMPTIONS + [
        "a record first seen already dead (created by an alive at incarnation 0) has unknown age and may be reclaimed at once when a reclaim time is set",
    ],
)

PROPS["C02"] = dict(
    title="A running node always defends itself: refutation outranks every accusation",
    pkg="./props/c02",
    level="exploration",
    rule=("one real node (protocol version 2-5, own incarnation 1-4 at the start) with one live scripted peer; rapid draws 1-12 steps of "
          "accusations about the node itself (suspect, dead, forged leave, alive newer / equal with other metadata or version vector / identical, "
          "and the four push/pull row states; incarnation 0, own-1, own, own+1, own+2, own+1000, 2^31, 2^32-2; accuser peer/unknown/self; carrier single, "
          "compound, compressed, CRC, piggybacked on a ping, push/pull join or not), UpdateNode with new metadata, and sleeps; in 4 plans of 7 a peer's memory of an earlier life of the node "
          "(alive about it at incarnation 1/2/7/2^20 with other metadata) arrives while Create is still running (inside the delegate's NodeMeta call, the listeners are already up). After each step: the node "
          "lists itself, its own record (state dump) is alive, LocalNode agrees, own incarnation never decreases; for an effective accusation the own "
          "incarnation is strictly above it and an alive message with exactly that incarnation and the current metadata leaves the node within 6 gossip "
          "intervals. Restart under fire (real loopback sockets, real scheduler): 1-3 senders flood a port with alive claims about the node (own address, other metadata, ever rising "
          "incarnations) while the node is created on that port 20-60 times per case; after every Create the node lists itself and NumMembers() counts it. "
          "non-trivial = effective accusation / a create under fire; distinct = (accusation, incarnation mode, carrier, meta/vsn variation, accuser, protocol version)"),
    tests=[
        dict(name="self", run="^TestSelfDefence$",
             quick=dict(shards=14, checks=340, timeout=600),
             thorough=dict(shards=14, checks=9000, timeout=3000)),
        dict(name="fire", run="^TestStartupUnderFire$", quick=dict(shards=2, checks=30, timeout=600), thorough=dict(shards=4, checks=400, timeout=3000)),
        dict(name="self-race", run="^TestSelfDefence$", race=True, quick=dict(shards=1, checks=40, timeout=900), thorough=dict(shards=6, checks=250, timeout=3000)),
    ],
    assumptions=PUPPET_ASSUMPTIONS + [
        "alive claims about the node carry its own address (a different address is the conflict case of C08)",
        "a plan stops once the node's incarnation reaches 2^32-1 (wrap-around is outside the property's quantifier)",
    ],
)

PROPS["C18"] = dict(
    title="The CIDR allowlist is enforced on every admission path",
    pkg="./props/c18",
    level="exploration",
    rule=("one real node with CIDRsAllowed drawn from 8 IPv4/IPv6 prefix sets (/0,/8,/12,/24,/25,/28,/32,/64,/128, several at once, always containing "
          "the node itself); three subject names with generated prior state (absent/alive/dead/left, later suspect) and reclaim on/off; 1-14 steps of alive "
          "claims whose advertised address is taken from a pool of allowed/disallowed 4-byte, 16-byte, IPv4-mapped and malformed (0,3,5,15,17 byte) forms, "
          "sent from allowed or disallowed source addresses as single/compound/compressed/nested/CRC/ping-piggybacked packets, push/pull rows (join and "
          "anti-entropy, all four states), address-less suspect/dead/left claims and sleeps past the reclaim time. Invariant after every step, against an "
          "independent net/netip model: every Members() entry, every event and every table row (state dump) has an allowed address; an alive from a "
          "disallowed source changes nothing. non-trivial = disallowed address on a path other than a plain new-node UDP alive, or a disallowed source"),
    tests=[
        dict(name="allow", run="^TestAllowlist$",
             quick=dict(shards=15, checks=320, timeout=600),
             thorough=dict(shards=15, checks=8500, timeout=3000)),
        dict(name="allow-race", run="^TestAllowlist$", race=True, quick=dict(shards=1, checks=40, timeout=900), thorough=dict(shards=6, checks=250, timeout=3000)),
    ],
    assumptions=PUPPET_ASSUMPTIONS + [
        "a non-nil empty allowlist means allow-all (pinned by IPMustBeChecked and Test_IsValidAddressOverride), so only non-empty lists are generated",
        "the node's own address is inside its allowlist (a node outside its own list cannot be created)",
    ],
)

CLUSTER_ASSUMPTIONS = COMMON_ASSUMPTIONS + [
    "testing/synctest virtual clock; the harness owns the clock and the network (simnet), not the Go scheduler: interleavings inside one virtual instant are sampled",
    "network decisions (latency, loss, duplication, cuts) are pure functions of (plan seed, link, per-link counter)",
    "the independent wire mirror decodes every packet on the simulated wire",
]

PROPS["C04"] = dict(
    title="No false suspicion in a healthy cluster",
    pkg="./props/c04",
    level="exploration",
    rule=("2-8 (thorough: 2-16) real nodes with generated configuration (probe interval/timeout, suspicion multipliers, awareness max, indirect checks 0-4, TCP "
          "pings on/off, protocol versions 1-5 uniform or mixed, encryption, label, compression, gossip/push-pull intervals); every packet latency hash-drawn in "
          "(0, ProbeTimeout/2) (upper bound 5%-100% of it), no loss; nodes start and join through generated contacts at generated instants, and up to 12 "
          "UpdateNode / Leave / user broadcast / SendBestEffort / SendReliable operations run at generated instants for 15-72 virtual seconds. Oracle over the "
          "whole history: no suspect message and no third-party dead message on the decoded wire, no leave event or leave message for a member that did not "
          "call Leave (none before the call), GetHealthScore()==0 on every node at every poll (period ProbeTimeout/4), no suspect/dead record in any final state "
          "dump, event log replays to Members() on every node. non-trivial = n>=3, at least one user operation after the first second, and at least one "
          "reordered packet pair on some link; distinct = distinct plans"),
    tests=[
        dict(name="healthy", run="^TestHealthyCluster$",
             quick=dict(shards=16, checks=40, timeout=900),
             thorough=dict(shards=16, checks=1500, timeout=3400)),
    ],
    assumptions=CLUSTER_ASSUMPTIONS + [
        "a leaver keeps running until the end of the run (a node that stops responding is outside this property)",
    ],
)

PROPS["C03"] = dict(
    title="A crashed member is removed by every live node within a bounded time",
    pkg="./props/c03",
    level="fault_enumeration",
    rule=("(a) crash detection: 3-8 (thorough 3-14) real nodes with generated configuration; nodes start/join at generated instants; 1..n/2 victims crash "
          "(Shutdown + address swallowing packets; dials refused or hanging) at generated instants incl. during formation; optionally a second life (a victim restarts under the same name after being reaped, is relisted and crashes again); loss 0-15%, duplication, latency "
          "up to 20ms among survivors; in own-evidence mode every suspect/dead message naming a victim is removed from the wire and push/pull is off, so each "
          "survivor must detect alone. Oracle: every join event for a victim at a survivor is followed by a leave event no later than max(crash, join) + B, "
          "B = (2(n-1)+2)(A+1)P + D + SuspicionMaxTimeoutMult*SuspicionMult*max(1,log10 n)*P re-derived from the configuration; no survivor lists a victim at "
          "the end. (b) probe schedule on fault-free runs: no node probes itself or a non-member, and within every stretch of stable membership its ping "
          "sequence splits into passes visiting every peer exactly once. non-trivial (a) = >=1 crash, >=2 survivors, >=2 (survivor, victim) pairs checked; "
          "(b) = at least 2n complete passes observed; (c) expiry race, wall-clock: one real node; a refutation / confirmation / third-party death notice / nothing is queued "
          "behind the node lock (held by a parked membership callback) before the subject's suspicion timer expires and is served first; afterwards the subject is revived at a higher "
          "incarnation and accused again (suspect message, or suspect/dead push/pull row): it must be removed again (within 20 s; timeout 80-180 ms), non-trivial = the lock was "
          "held and the message queued before the expiry; distinct = distinct plans"),
    tests=[
        dict(name="crash", run="^TestCrashDetection$",
             quick=dict(shards=12, checks=25, timeout=900),
             thorough=dict(shards=14, checks=300, timeout=3400)),
        dict(name="sched", run="^TestProbeSchedule$",
             quick=dict(shards=4, checks=100, timeout=900),
             thorough=dict(shards=2, checks=1500, timeout=3400)),
        dict(name="expiry", run="^TestExpiryRace$",
             quick=dict(shards=6, checks=8, timeout=900),
             thorough=dict(shards=8, checks=150, timeout=3400)),
    ],
    assumptions=CLUSTER_ASSUMPTIONS + [
        "expiry race (c): wall-clock test; 'never detected' means still listed 20 s after a suspicion whose timeout is 80-180 ms",
        "victims do not change metadata shortly before crashing (the bound's start point is the crash)",
        "the run ends adaptively once no survivor lists a victim or holds it alive/suspect; pairs not yet due at the end are counted as not-due, not as passes",
    ],
)

PROPS["C05"] = dict(
    title="Views re-converge to the live set once faults stop",
    pkg="./props/c05",
    level="fault_enumeration",
    rule=("3-7 (thorough 3-12) real nodes formed on a perfect network, then a fault phase of 8-45 virtual seconds with hash-drawn loss (0-40%), duplication, "
          "delay up to 1.2 s (reordering), refused and cut streams, and up to 8 timed events: crash (host up or down), same-name same-address restart with re-join and new metadata (so the stale record conflicts at an equal incarnation), graceful leave followed by shutdown, UpdateNode, symmetric or asymmetric partitions and heals; then a perfect network and no operations. "
          "The connectivity precondition is evaluated on Members() of the live nodes when faults stop (false = counted, not checked). Oracle, polled every "
          "virtual second up to the cap n*B + 40 push/pull intervals + 30 s (then one more cap): every live node lists exactly the live set with the owner's "
          "current metadata and no live node is suspect/dead in any state dump; event logs replay to Members(). non-trivial = disagreement (membership, "
          "metadata or accusation) existed when faults stopped; distinct = distinct plans"),
    tests=[
        dict(name="conv", run="^TestConvergence$",
             quick=dict(shards=16, checks=25, timeout=1200),
             thorough=dict(shards=16, checks=700, timeout=3400)),
    ],
    assumptions=CLUSTER_ASSUMPTIONS + [
        "the settling cap is a probabilistic bound (random peer selection); a case unconverged at the cap is observed for one more cap before being reported",
        "non-convergence that ends in a clean split is the listed known finding C05-late-split and is counted under excluded_known, any other non-convergence is a violation",
    ],
    max_known_fraction=dict(quick=0.25, thorough=0.06),
)

PROPS["C07"] = dict(
    title="Membership events are a serialized, faithful log of Members()",
    pkg="./props/c07",
    level="exploration",
    rule=("(a) one real node, scripted peers: 1-18 steps of claims (alive/suspect/dead/left and push/pull rows at incarnation held-1..held+2, same or other "
          "address and metadata, any accuser, bursts of 2-4 claims in one packet), sleeps across the suspicion, reclaim and reaping deadlines (answering and "
          "silent subjects), local UpdateNode and a Leave at the end or in the middle (the node keeps running); one claim in nine is about the node itself, also after it has left; (b) 3-6 real nodes under loss up to 50%, delay, cut streams, crashes, restarts, leaves and "
          "updates. At every quiescent point (after each step / every 500 virtual ms, synctest.Wait returned) the oracle replays the node's event log: callbacks "
          "never overlapped, per member join (update)* leave, and the replayed set equals Members() by name with the metadata and address of the last "
          "join/update event. The same oracle also runs at the end of every C03/C04/C05 cluster case; both kinds of history also run under the race detector. non-trivial = history with a leave followed by a re-join, "
          "or an update event; distinct = distinct plans"),
    tests=[
        dict(name="log", run="^TestEventLog$",
             quick=dict(shards=8, checks=400, timeout=600),
             thorough=dict(shards=8, checks=12000, timeout=3000)),
        dict(name="logc", run="^TestEventLogCluster$",
             quick=dict(shards=8, checks=40, timeout=900),
             thorough=dict(shards=8, checks=1200, timeout=3400)),
        # the same histories under the race detector: a membership transition that runs outside the node lock is reported even when no callback happened to overlap
        dict(name="log-race", run="^TestEventLog$", race=True, quick=dict(shards=2, checks=60, timeout=900), thorough=dict(shards=6, checks=250, timeout=3400)),
        dict(name="logc-race", run="^TestEventLogCluster$", race=True, quick=dict(shards=2, checks=10, timeout=900), thorough=dict(shards=8, checks=30, timeout=3400)),
    ],
    required_labels=dict(both=["TestEventLog/claim-about-self", "TestEventLog/claim-about-self-after-leave"]),
    assumptions=PUPPET_ASSUMPTIONS + ["the event delegate cannot call Members() itself (it runs under the node lock), so faithfulness is checked at quiescent points"],
)

PROPS["C06"] = dict(
    title="Suspicion timeout respects the Lifeguard bounds and confirmation rules",
    pkg="./props/c06",
    level="exploration",
    rule=("one real node with 0-12 (thorough 0-38) healthy scripted peers (cluster size 2-40), SuspicionMult 1-8, SuspicionMaxTimeoutMult 1-8, probe interval "
          "200ms/1s; the suspicion of a subject starts from an injected accusation (exact start instant) or from the node's own failed probe (start = probe "
          "instant + interval); then a timed script of up to 8 acts - confirmations from distinct peers, repeats, the original accuser, the local node, the "
          "subject, unknown names, at the current or an older incarnation (the last act may be a confirmation naming a newer incarnation than the node holds: it counts, and the suspicion still runs out on schedule); refutation; re-suspicion; third-party death; leave; stale death and leave notices (older incarnation: must be ignored altogether); rejoin at the same incarnation after a death (the script continues after a death) - at instants drawn 1-50 ms "
          "around every analytic deadline (min, max, the timeout after c=0..k confirmations) or uniformly. Oracle: exact-arithmetic model of k, min, max and "
          "the logarithmic schedule; the leave event for the subject must occur within 1 ms of the model's instant (timer expiry, confirmation driving the timer "
          "to zero, foreign death, leave) or never (refuted), and a timer death lies in [min, max] after the start of the suspicion that caused it. "
          "Wall-clock schedule: the log writer, on the line announcing the expiry, delivers alive{subject, incarnation+1, other metadata} and waits until the node has delivered the update event; "
          "a refutation accepted while the expiry is being carried out keeps the member (no leave event, still listed). "
          "non-trivial = at least one confirmation processed while a suspicion is pending / a refutation accepted inside the expiry; distinct = distinct plans"),
    tests=[
        dict(name="sched", run="^TestSuspicionSchedule$",
             quick=dict(shards=14, checks=290, timeout=600),
             thorough=dict(shards=14, checks=9000, timeout=3000)),
        dict(name="window", run="^TestRefutationInsideExpiry$", quick=dict(shards=2, checks=12, timeout=600), thorough=dict(shards=4, checks=400, timeout=3000)),
    ],
    assumptions=PUPPET_ASSUMPTIONS + [
        "the wall-clock test recognises the expiry by the node's log line ('... timeout reached') and delivers the refutation from inside the log writer; without that line, or when the claim is not accepted inside the window, nothing is asserted (counted under labels)",
        "messages are delivered 200us after sending and processed in zero virtual time; script instants are offset by 0.3-0.5 ms so that no arrival ties with a deadline",
        "own-evidence plans that contain a refutation are only checked up to it (the silent subject is suspected again by the node itself)",
    ],
)

PROPS["C08"] = dict(
    title="Graceful leave is final; a member's name and address cannot be hijacked",
    pkg="./props/c08",
    journal=True,
    level="exploration",
    rule=("peer role: one real node holding a subject alive/suspect/dead/left (incarnation 1-3), DeadNodeReclaimTime 0/2s/1h; 1-8 steps of leave messages "
          "(incarnation held-1..held+3), alive claims from the same address, another IP or another port (incarnation held-1..held+2), third-party dead/suspect, "
          "sleeps 1ms-5s, over single/compound/compressed packets and push/pull rows (join or not). Determinate outcomes are asserted from the dump before/after: "
          "a leave at incarnation >= held for an alive/suspect record gives left (not dead) and exactly one leave event; an alive no newer than the recorded "
          "departure/death from the same address changes nothing; an alive from a different address never changes the address of an alive, suspect or "
          "recently-dead record (conflict callback with existing/other for newer claims); after a leave (immediately) or a death older than a positive reclaim "
          "time the claim is adopted (alive at the new address, one join event). Leaver role: the real node with 0-3 live peers, UpdateNode broadcasts pending, optionally every peer suspect in its view (still members, still to be told), accusations (suspect/dead/alive about itself) before, at the very virtual instant of (0-4 packets, offsets 0/+-1us/20us; also a held-lock schedule in which a delegate callback parks under the node lock while Leave and the claims queue behind it, in either order: Leave first, or the claims first so that they are served while the call is already under way) and after Leave, repeated Leave: finality is judged on wire order and event order (after the self-signed dead leaves the node, no alive about itself and no join event for itself); every nil return implies own record left and, with a live peer in view, a self-signed dead sent to a live peer before the return; afterwards the node "
          "never lists itself again. non-trivial = determinate peer-role case / a Leave racing accusations or an accusation after Leave"),
    tests=[
        dict(name="peer", run="^TestLeaveFinalAndHijack$",
             quick=dict(shards=10, checks=120, timeout=600),
             thorough=dict(shards=10, checks=4000, timeout=3000)),
        dict(name="leaver", run="^TestLeaver$",
             quick=dict(shards=5, checks=1400, timeout=600),
             thorough=dict(shards=5, checks=70000, timeout=3000)),
        dict(name="race", run="^(TestLeaveFinalAndHijack|TestLeaver)$", race=True, quick=dict(shards=1, checks=60, timeout=900), thorough=dict(shards=6, checks=250, timeout=3000)),
    ],
    assumptions=PUPPET_ASSUMPTIONS + [
        "the Leave race is sampled by releasing the call and the accusations at the same virtual instant; which goroutine wins is up to the Go scheduler",
        "ages of deaths are only used when unambiguous (100ms away from the reclaim boundary and caused by an injected claim)",
    ],
)

PROPS["C16"] = dict(
    title="Labels isolate logical clusters",
    pkg="./props/c16",
    level="exploration",
    technique="property-based testing (rapid) + native coverage-guided fuzzing of the header codec round trip",
    rule=("(a) codec: labels of 0-300 bytes (ascii, random, all-244), payloads of 0-9000 bytes incl. ones starting with the label magic byte; packet "
          "round trip remove(add(p,l))=(p,l), every header prefix refused, labels >255 refused; stream round trip through an in-memory conn that fragments "
          "writes into generated chunk sizes (1 byte .. 4097, so the header is split at every position) with optional latency. (a2) 2-4 streams (labels, payloads and fragmentation as in (a)) whose headers are all removed before any payload is read, payloads then read in a generated order: every stream returns its own label and payload; (b) isolation: a fresh real node "
          "per case with label Lr from {'', a, ab, b, 255 x, 254 x + y}, SkipInboundLabelCheck on/off, encryption on/off (label as associated data), receives one "
          "message (ping, indirect ping, alive, suspicion about itself, user packet; TCP ping, push/pull, reliable user message) under sender label Ls in a "
          "single/compound/compressed/CRC carrier, optionally with a doubled header: when the header must not be accepted the outcome is nothing (no outbound "
          "byte, no delegate call, membership and health unchanged, no stream reply), otherwise the normal effect is required. (c) two real clusters with "
          "different labels on one network with cross join attempts and stray traffic never learn of each other. non-trivial = header split across fragments / "
          "prefix, last-byte or skip-mode mismatches and all accepted cases / a cross-cluster attempt; thorough adds native fuzzing of (a). (d) the header as the node itself adds and removes it on real sockets: "
          "two real nodes with one label of 1-255 bytes on memberlist's own NetTransport, 1-8 goroutines sending 2-40 unique user messages of 2-60000 bytes in both directions at once: every delivered "
          "message is byte-identical to one that was sent, none more often than sent, none lost after 3 resends; also under the race detector"),
    tests=[
        dict(name="pkt", run="^TestCodecPacket$", quick=dict(shards=2, checks=20000, timeout=300), thorough=dict(shards=4, checks=400000, timeout=1200)),
        dict(name="stream", run="^TestCodecStream$", quick=dict(shards=4, checks=4000, timeout=300), thorough=dict(shards=6, checks=100000, timeout=1800)),
        dict(name="inter", run="^TestCodecStreamInterleaved$", quick=dict(shards=4, checks=1500, timeout=300), thorough=dict(shards=6, checks=40000, timeout=1800)),
        dict(name="iso", run="^TestIsolation$", quick=dict(shards=6, checks=800, timeout=600), thorough=dict(shards=6, checks=30000, timeout=3000)),
        dict(name="two", run="^TestTwoClusters$", quick=dict(shards=4, checks=40, timeout=600), thorough=dict(shards=4, checks=1500, timeout=3000)),
        dict(name="sock", pkg="./props/c12", run="^TestRoundTripSockets$", quick=dict(shards=1, checks=150, timeout=600, env=dict(VF_SOCK_LABEL=1)),
             thorough=dict(shards=2, checks=6000, timeout=3400, env=dict(VF_SOCK_LABEL=1))),
        dict(name="sock-race", pkg="./props/c12", run="^TestRoundTripSockets$", race=True, quick=dict(shards=2, checks=40, timeout=900, env=dict(VF_SOCK_LABEL=1)),
             thorough=dict(shards=6, checks=200, timeout=3400, env=dict(VF_SOCK_LABEL=1))),
        dict(name="seedcorpus", kind="plain", run="^Fuzz", quick=dict(shards=1, timeout=300)),
        dict(name="fuzzpkt", kind="fuzz", run="^FuzzLabelPacket$", thorough=dict(fuzztime="120s", timeout=400)),
        dict(name="fuzzstream", kind="fuzz", run="^FuzzLabelStream$", thorough=dict(fuzztime="180s", timeout=500)),
    ],
    assumptions=PUPPET_ASSUMPTIONS + ["an unlabelled stream or packet never begins with the label magic byte 244 (all message types are < 14)",
                                      "a second label header behind a valid, accepted one is a malformed payload (C13), not a labelling question"],
)

PROPS["C12"] = dict(
    title="The wire pipeline round-trips every message under every configuration",
    pkg="./props/c12",
    level="exploration",
    rule=("two real nodes A,B on a loss-free network; configuration cell drawn from protocol version 1-5 on either side (v1 = encryption version 0), no key or "
          "a 16/24/32-byte key, compression on/off, label none/3 bytes/255 bytes, msgpack time format on either side, UDPBufferSize 512-65000, node names of "
          "1-128 bytes incl. non-UTF-8, push/pull user state of nil/0/1/15/16/17/100/4095/4096/4097/65536 bytes (thorough up to 1 MiB) on either side, ack "
          "payload 0-1000 bytes; 1-10 sends: SendBestEffort 0-8000 bytes, SendReliable 0..65536 bytes at block boundaries (thorough up to 4 MiB), the older entry points SendTo / SendToAddress / SendToUDP / SendToTCP, gossip user "
          "broadcasts, UpdateNode with 0-512 bytes of metadata; byte patterns incompressible / zeros / text / magic first byte (244, 0, 7, 9, 10, 12, 13). "
          "Oracle: B's delegate receives exactly the multiset of user messages A was given, both sides' MergeRemoteState get the other's LocalState bytes, "
          "NotifyPingComplete carries A's ack payload, B's view of A has A's name, metadata and version vector; and the independent wire mirror decodes every "
          "packet and every stream write on the wire and recovers the same user payloads and user states. non-trivial = payload >= 1 byte in a cell with at "
          "least two of encryption/compression/label active; distinct = distinct plans. Socket variant: two real nodes on memberlist's own NetTransport (loopback; label of 0-255 bytes, "
          "key, compression, protocol version), 1-8 goroutines per case sending 2-40 unique user messages in both directions at the same time (best effort 2-60000 bytes, reliable 2-300000): "
          "everything delivered was sent to that node byte for byte, nothing is delivered more often than sent, reliable messages exactly once, best-effort ones after at most 3 resends; also under the race detector"),
    tests=[
        dict(name="rt", run="^TestRoundTrip$",
             quick=dict(shards=16, checks=100, timeout=600),
             thorough=dict(shards=16, checks=3000, timeout=3400)),
        dict(name="sock", run="^TestRoundTripSockets$", quick=dict(shards=2, checks=150, timeout=600), thorough=dict(shards=4, checks=6000, timeout=3400)),
        dict(name="sock-race", run="^TestRoundTripSockets$", race=True, quick=dict(shards=1, checks=40, timeout=900), thorough=dict(shards=6, checks=200, timeout=3400)),
        dict(name="seedcorpus", kind="plain", run="^FuzzRoundTrip$", quick=dict(shards=1, timeout=300)),
        dict(name="fuzz", kind="fuzz", run="^FuzzRoundTrip$", thorough=dict(fuzztime="240s", timeout=600)),
    ],
    technique="property-based testing (rapid) + native coverage-guided fuzzing; oracle = API-level round trip plus an independent decoder",
    assumptions=CLUSTER_ASSUMPTIONS + [
        "metadata and gossip payloads are kept within the packet budget of the drawn UDPBufferSize/label/encryption (a message that cannot fit a packet is never gossiped)",
        "an empty SendReliable payload may be delivered zero or one time (the stream path does not surface empty messages)",
        "socket variant: loopback UDP may drop a datagram under buffer pressure, so a best-effort message counts as lost only after 4 attempts; bursts stay far below the receive buffer",
    ],
)

PROPS["C14"] = dict(
    title="Inbound authentication: only traffic sealed under an installed key is acted on",
    pkg="./props/c14",
    level="exploration",
    technique="property-based testing (rapid) + single-bit sweep over short sealed messages + native coverage-guided fuzzing; oracle = three-way differential (nothing delivered / genuine / modified) on twin nodes",
    rule=("three identically prepared real nodes per case (keyring of three keys - primary, a middle and a last one -, verify-incoming on, optionally with the inbound label check delegated so that genuine traffic carries no header, label none or 'lbl', peers speaking encryption version 0 or "
          "1, two known members): nothing delivered / one genuine message of each of 21 kinds (ping, anonymous ping, indirect ping, ack, nack, alive new/newer, "
          "suspect, dead, leave, suspicion about the node, user, compound, compressed, CRC; stream push/pull join and anti-entropy, compressed push/pull, user, "
          "TCP ping) / a modified copy: (also enumerated: every single-bit flip of every sealed message <= 200 bytes, every 24th bit in the quick tier) bit flip or byte substitution anywhere or targeted at version, nonce, body, tag, stream type byte, length prefix, label "
          "header; truncation, extension, splice of two ciphertexts, other/no/added label header, other associated label, foreign key, another cluster's complete traffic (its header and its associated label), key removed before delivery (the middle or the last one; the other must keep working) or while the stream is being read, key installed after sealing, secondary key, plaintext, double sealing; in one case of four the receiver was created with an empty keyring and keyed at run time (it must behave exactly like one keyed at creation). Outcome = state dump + delegate log + decoded replies to the sender "
          "+ health; oracle: outcome(modified) equals outcome(nothing) (a rejected stream may add one generic error reply) or outcome(genuine), and must be "
          "nothing for foreign/removed keys, wrong labels and plaintext. non-trivial = non-identity modification of a message whose genuine delivery is visible; "
          "distinct = distinct (message, modification, configuration); thorough adds native coverage-guided fuzzing of the same oracle (message, configuration, XOR mask and offset over the sealed bytes)"),
    tests=[
        dict(name="auth", run="^TestAuthentication$",
             quick=dict(shards=16, checks=250, timeout=600),
             thorough=dict(shards=16, checks=8000, timeout=3400)),
        dict(name="visible", kind="plain", run="^(TestCorpusVisible|TestKnownVersionByte)$", quick=dict(shards=1, timeout=300)),
        dict(name="bitsweep", kind="plain", run="^TestBitSweep$", quick=dict(shards=8, timeout=900), thorough=dict(shards=16, timeout=3400)),
    ],
    assumptions=PUPPET_ASSUMPTIONS + [
        "modifications that change only the encryption-version byte between 0 and 1 are the listed known finding C14-version-byte and are excluded (counted)",
        "outcomes are compared between separately created, identically configured nodes; piggybacked broadcasts in replies are ignored, direct replies are compared decoded",
    ],
)

PROPS["C13"] = dict(
    title="Hostile bytes never crash, hang, or bypass the documented resource caps",
    pkg="./props/c13",
    level="fault_enumeration",
    journal=True,
    technique="property-based testing (rapid) + exhaustive single-byte sweep + native coverage-guided fuzzing, oracle = survival, liveness of both listeners, lenient independent parse",
    rule=("a real node with two known members (label none/'lbl'; no encryption / encryption with verify-incoming / without) receives, as packet or stream: "
          "(a) mutations of 21 genuine message kinds applied before sealing (so they reach the inner decoders) or after (outer layer): byte substitution with "
          "msgpack/type-significant values, bit flips, truncation at any offset, extension up to 70000 bytes, splicing two messages, nesting compound/compress "
          "up to depth 40, 1/2/4-byte length fields set to extremes, unconstrained byte strings; streams are closed or left stalled by the sender; "
          "(b) exhaustive sweep: truncation and 6 substitutions at every byte position (quick: every third) of every genuine plaintext <= 400 bytes, plain and encrypted, plus every outer-layer cut point of every stream with the sender stalled; (c) declared sizes beyond the caps (node count, user state, user message, encrypted frame length; also negative) followed by up to 1 MiB of "
          "data; a 40 MiB+ decompression bomb as packet and stream; 0-300 stalled concurrent push/pulls; 1-300 push/pull exchanges cut one after the other (after the type byte, inside the header, before the rows, or with the reply never read), after which an honest exchange must be served; floods beyond HandoffQueueDepth while the handler is "
          "blocked. Oracle: the process survives and no single delivery makes it allocate more than 512 MiB (every case is journalled first; a crash of the binary is attributed to it), every stream is closed by the node "
          "within its TCP timeout, afterwards the node answers a state dump and a ping, records/events/delegate payloads change only if some prefix-tolerant "
          "parse of a plaintext candidate names them, over-cap declarations consume at most the declaration plus two read buffers and deliver nothing, the cap "
          "on concurrent push/pulls and the queue depth hold; at the end the bubble exits (no goroutine left). non-trivial = input that gets past the outermost "
          "layer (label and, when configured, decryption); thorough adds native fuzzing with the genuine corpus as seeds. Socket variant (memberlist's own NetTransport on loopback, "
          "a second real node as witness): datagrams of 0/1/2/.../65507 bytes and connections that close at once, stall after a fragment or a partial label header, or send up to 1 MiB of garbage; "
          "every stalled connection is closed by the node within TCPTimeout, the stream listener serves the witness while they are open, both listeners serve afterwards, no handler goroutine, "
          "no foreign member, and nothing is left after Shutdown"),
    tests=[
        dict(name="hostile", run="^TestHostileInputs$", quick=dict(shards=10, checks=500, timeout=600), thorough=dict(shards=10, checks=25000, timeout=3400)),
        dict(name="sweep", kind="plain", run="^TestSingleByteSweep$", quick=dict(shards=4, timeout=600), thorough=dict(shards=8, timeout=3400)),
        dict(name="caps", run="^(TestOversizeDeclarations|TestConcurrentPushPullCap|TestHandoffQueueDepth|TestReplayFlood|TestCutExchangesLeaveNothing)$", quick=dict(shards=2, checks=150, timeout=600), thorough=dict(shards=4, checks=2000, timeout=3000)),
        dict(name="bomb", kind="plain", run="^(TestDecompressionBomb|TestKnownMsgpackStreamAlloc)$", quick=dict(shards=1, timeout=600)),
        dict(name="seedcorpus", kind="plain", run="^Fuzz", quick=dict(shards=1, timeout=600)),
        dict(name="sock", run="^TestHostileSockets$", quick=dict(shards=2, checks=40, timeout=600), thorough=dict(shards=4, checks=1500, timeout=3400)),
        dict(name="fuzzpkt", kind="fuzz", run="^FuzzPacket$", thorough=dict(fuzztime="300s", timeout=700)),
        dict(name="fuzzstream", kind="fuzz", run="^FuzzStream$", thorough=dict(fuzztime="300s", timeout=700)),
    ],
    assumptions=PUPPET_ASSUMPTIONS + [
        "'refused before the data is buffered' is observed as bytes consumed from the stream, not as allocations",
        "a panic on a memberlist goroutine kills the test binary; the driver attributes it to the journalled case",
        "socket variant: wall-clock; liveness questions are repeated (4 reliable messages, 6 pings) before a listener is declared dead, closure of a stalled connection is awaited for TCPTimeout + 10 s",
    ],
)

C15_SITES = ["pkt:ping", "pkt:ack", "pkt:ack-with-payload", "pkt:indirectPing", "pkt:nack", "pkt:alive", "pkt:suspect", "pkt:dead", "pkt:leave", "pkt:user",
             "stream:pushPull", "stream:user", "stream:ping", "stream:ack", "stream:err"]

PROPS["C15"] = dict(
    title="Outbound confidentiality: nothing leaves unencrypted when encryption is enforced",
    pkg="./props/c15",
    level="exploration",
    rule=("4-6 real nodes with a keyring (16/24/32-byte keys), outgoing verification on, label none/'conf', protocol versions 1-5 per node, compression on/off, optionally created with an empty keyring and keyed at run time before the first send; the history is built to reach every send site: probes with ack payloads, one node's inbound UDP cut for 2.5 s (indirect ping requests, relayed "
          "pings, nacks, TCP fallback pings and their acks; optionally its streams too so that suspicion, death and refutation traffic appears), "
          "SendBestEffort, SendReliable and the older entry points SendTo / SendToAddress / SendToUDP / SendToTCP, user gossip, UpdateNode, join and periodic push/pull in both directions, plaintext and garbage streams from an outsider "
          "(error replies), a graceful leave, and optionally a key rotation in progress (new key installed everywhere at 4 s, each node switching at its own "
          "instant). Oracle on every packet and every stream write handed to the transport by a real node: the cleartext label header is exactly the "
          "configured label, the rest opens with the independent AES-GCM implementation under the sender's primary key at the send instant with the label "
          "([type,len,label] for streams) as associated data, the encryption version matches the sender's protocol version, and a per-case canary embedded "
          "in node names, metadata, user messages, user state and ack payloads occurs in no tapped byte string; the same histories also run under the race detector (a send buffer shared between concurrent sends). Coverage rule: every send-site class must be "
          "observed (otherwise inconclusive). non-trivial = more than 100 buffers checked in the case; distinct = distinct plans"),
    tests=[
        dict(name="conf", run="^TestOutboundConfidentiality$",
             quick=dict(shards=14, checks=7, timeout=900),
             thorough=dict(shards=14, checks=280, timeout=3400)),
        # a buffer that is still being written to the wire while another send reuses it shows up as a data race long before the unlucky bytes do
        dict(name="conf-race", run="^TestOutboundConfidentiality$", race=True, quick=dict(shards=2, checks=3, timeout=900), thorough=dict(shards=8, checks=8, timeout=3400)),
    ],
    required_labels=dict(both=["TestOutboundConfidentiality/site:" + s for s in C15_SITES]),
    assumptions=CLUSTER_ASSUMPTIONS + [
        "'every code path' is approximated by 'every send-site class observed, every byte of every observation checked'; the static call-graph argument is outside this technique family",
        "within 2 ms of a node's UseKey call either key is accepted as its primary",
    ],
)

PROPS["C11"] = dict(
    title="Piggyback packing is lossless and stays within the packet budget",
    pkg="./props/c11",
    level="exploration",
    rule=("one real sender node (UDPBufferSize 400-65000, label 0/5/255 bytes, no encryption or version 0/1, compression on/off) with one scripted peer "
          "advertising PMax 2-5 (checksum at 5); 1-5 batches fill the queues: up to 700 tiny user broadcasts (0-2 bytes, so that far more than 255 parts fit), "
          "mixtures, messages of maximal size for the budget, up to 60 membership broadcasts with 0-512 bytes of metadata, handed out by a delegate that "
          "honours its (overhead, limit) contract; packing is triggered by a gossip tick, an inbound ping (ack + piggyback) or an outbound probe. Oracle: the "
          "independent decoder parses every packet strictly (no truncated part, no undeclared trailing bytes), the multiset of user parts on the wire equals what "
          "the delegate handed out (nothing lost, nothing invented), and every packet containing a queued broadcast is at most UDPBufferSize bytes as seen by "
          "the transport (after label wrapping). non-trivial = some packet with >= 2 parts; distinct = distinct plans"),
    tests=[
        dict(name="pack", run="^TestPiggybackPacking$",
             quick=dict(shards=16, checks=150, timeout=600),
             thorough=dict(shards=16, checks=3000, timeout=3400)),
    ],
    required_labels=dict(both=["TestPiggybackPacking/more-than-255-parts", "TestPiggybackPacking/within-16-bytes-of-limit", "TestPiggybackPacking/crc"]),
    assumptions=PUPPET_ASSUMPTIONS,
)

PROPS["C17"] = dict(
    title="Keyring integrity and zero-downtime key rotation",
    pkg="./props/c17",
    level="exploration",
    journal=True,
    technique="property-based testing (rapid): state-machine model of the keyring API; generated rotation interleavings on real clusters, also under the race detector",
    rule=("(a2) concurrent calls on one ring: 2-3 threads with 1-3 calls each (AddKey/UseKey/RemoveKey/GetKeys/GetPrimaryKey, mostly on the same two keys) released together on a fresh ring, 400 (thorough 4000) repetitions per plan; every distinct outcome (per-call results and final ring) must be explained by some sequential order of the calls that keeps each thread's order, and the final ring starts with the primary and holds no key twice; non-trivial = plans in which two threads write the same key. " "(a) keyring API: NewKeyring(keys, primary) with valid (16/24/32 bytes), invalid (0/15/17/33), nil and duplicate keys, then 0-30 calls of AddKey / "
          "UseKey / RemoveKey / GetKeys / GetPrimaryKey with keys from the same pool, starting from empty and non-empty rings, against an ordered-set model: after "
          "every call the primary is element 0 and what GetPrimaryKey returns, no duplicates, all lengths valid, errors exactly for invalid length / UseKey of an "
          "absent key / RemoveKey of the primary, the ring equals the model, no panic, and every slice previously returned by GetKeys still equals the deep copy "
          "taken when it was returned. (b) 2-6 real encrypted nodes with probes, gossip, push/pull and user messages running: the three rotation phases are "
          "performed node by node at independently generated instants; after every single step every ordered pair has primary(i) installed at j; nobody is "
          "suspected, no leave event, health 0, every user message delivered exactly once, everybody ends with only the new key. (c) the same runs under "
          "the race detector. non-trivial (a) = removal of a secondary key while an earlier GetKeys result is held, RemoveKey on an empty ring / of the "
          "primary, UseKey of an absent key, duplicate AddKey; (b) = steps performed in an order that differs between phases or n>=3"),
    tests=[
        dict(name="model", run="^TestKeyringModel$", quick=dict(shards=4, checks=20000, timeout=300), thorough=dict(shards=8, checks=500000, timeout=1800)),
        dict(name="concurrent", run="^TestKeyringConcurrent$", quick=dict(shards=4, checks=100, timeout=600), thorough=dict(shards=5, checks=3000, timeout=3400)),
        dict(name="concurrent-race", run="^TestKeyringConcurrent$", race=True, quick=dict(shards=4, checks=60, timeout=600), thorough=dict(shards=5, checks=250, timeout=3400)),
        dict(name="rotation", run="^TestKeyRotation$", quick=dict(shards=8, checks=12, timeout=600), thorough=dict(shards=12, checks=500, timeout=3000)),
        dict(name="rotation-race", run="^TestKeyRotation$", race=True, quick=dict(shards=4, checks=4, timeout=900), thorough=dict(shards=8, checks=30, timeout=3400)),
    ],
    required_labels=dict(both=["TestKeyringModel/remove-middle-while-held", "TestKeyringModel/remove-on-empty", "TestKeyRotation/different-step-order"]),
    assumptions=CLUSTER_ASSUMPTIONS + ["data races are reported by the Go race detector only on the interleavings that actually occurred"],
)

PROPS["C19"] = dict(
    title="Probe acknowledgements are correctly correlated, relayed and cleaned up",
    pkg="./props/c19",
    level="exploration",
    rule=("prober role: one real node (probe interval 1 s, timeout 300 ms, awareness max 2/4/8, IndirectChecks 0-3 with as many scripted helpers advertising "
          "PMax 2-5, TCP pings on/off, subject PMax 2/3/5) probes a scripted subject 1-6 times; per probe the plan fixes, relative to that probe's own "
          "awareness-scaled deadline, the direct ack (none / before the probe timeout / between timeout and deadline / after the deadline, optionally "
          "duplicated), each helper's relayed ack (none / in time / late / wrong sequence number) and nack, the TCP fallback (refused / stalls / right or wrong "
          "sequence number / late / garbage) duplicated and third-party nacks beyond the expected number, and up to 4 foreign acks and nacks (unknown, previous-probe, other-node, 0 and 2^32-1 sequence numbers, from the "
          "subject, a helper or a stranger). Oracle: the subject is suspected at the deadline iff no acknowledgement carrying this probe's number arrived in "
          "time by any of the three routes; indirect requests and TCP pings are only issued after the probe timeout; GetHealthScore equals a clamped counter "
          "model (-1 answered, +1 failed without nack-capable helpers, + expected - received nacks otherwise) after every probe. relay role: 1-6 indirect-ping "
          "requests (with/without nack, with/without source address, repeated requester numbers, 1-700 ms apart) whose target answers in time / twice / late / "
          "never / with a foreign number / or whose acknowledgement (the node numbers its pings consecutively, so the number is known) already waits behind the request in the same packet; the relay may itself hold the target as dead or departed (it is asked all the same) and its own health score may have been raised by 1/2/5 refuted accusations first (its deadlines must not depend on it): fresh sequence number towards the target, exactly one relayed ack under the requester's number 100.4 ms after the "
          "request, or exactly one nack at the probe timeout iff requested, nothing else. send failures: the node's health score is first raised by 0-3 refuted accusations; each of 1-5 probes of the subject is answered, or its ping cannot be sent because of a local error (the score does not move, nobody is asked to help, nobody is suspected) or because the transport blames the peer (helpers are asked at once, the probe fails at its deadline and costs health by the nack rule); GetHealthScore equals the model after every probe. cleanup (overlay hook): no pending handler survives its deadline. "
          "User pings (Ping(), same acknowledgement table): 1-6 calls whose target answers with the right number early, late, from a third party, with another / the previous call's number, with a nack, or not at all, with unrelated acknowledgements in between: success iff the own number arrived within ProbeTimeout, round trip as sent, return by the deadline, health untouched. "
          "non-trivial = probe with a late, foreign or duplicate acknowledgement / any relay request / handlers observed pending / a user ping that is not simply answered"),
    tests=[
        dict(name="sendfail", run="^TestProbeSendFailure$", quick=dict(shards=4, checks=150, timeout=600), thorough=dict(shards=8, checks=8000, timeout=3000)),
        dict(name="prober", run="^TestProberCorrelation$", quick=dict(shards=10, checks=150, timeout=600), thorough=dict(shards=10, checks=6000, timeout=3400)),
        dict(name="relay", run="^TestRelay$", quick=dict(shards=3, checks=700, timeout=600), thorough=dict(shards=3, checks=30000, timeout=3000)),
        dict(name="userping", run="^TestUserPing$", quick=dict(shards=1, checks=300, timeout=600), thorough=dict(shards=2, checks=10000, timeout=3000)),
        dict(name="pending", run="^TestPendingAcksDiscarded$", tags="vfhook", quick=dict(shards=3, checks=150, timeout=600), thorough=dict(shards=3, checks=5000, timeout=3000)),
    ],
    assumptions=PUPPET_ASSUMPTIONS + [
        "scripted arrivals are at least 20 ms away from every deadline and 200 us network latency applies, so no arrival ties with a timer",
        "the pending-handler count is read through an accessor injected by build overlay (tag vfhook, /verif/hooks); if the ack table is renamed that sub-check stops building and the check reports inconclusive",
    ],
)

PROPS["C20"] = dict(
    title="Lifecycle safety: Leave/Shutdown and the query API in any order and interleaving",
    pkg="./props/c20",
    level="exploration",
    journal=True,
    technique="property-based testing (rapid) of generated call histories in virtual time, plus a real-time concurrent variant, both also under the race detector",
    rule=("a real subject node with 0-3 real peers (optionally on a lossy network), all tickers on, GossipToTheDeadTime 0.5/2 s; 1-7 groups of 1-4 public API "
          "calls (Join, Leave(5/60 ms), Shutdown, Members, NumMembers, LocalNode, UpdateNode, SendBestEffort, SendReliable, Ping, GetHealthScore, "
          "ProtocolVersion) released from separate goroutines at the same virtual instant with micro-delays of 0-2 ms, groups separated by 0-9 s (so that every "
          "stage created/joined/leaving/left/left-and-reaped/shut down is visited); the excluded orderings are Leave started after Shutdown returned and, in "
          "virtual time only, two overlapping Leave calls. Oracle: no call panics, every call returns within its documented wait (Leave within timeout + 1 ms), "
          "repeated Shutdown returns nil, after Shutdown returns no packet, stream write or dial of the node reaches the network and attempts on the closed "
          "transport stop within one awareness-scaled probe interval, and the bubble exits (no goroutine of the node left) after that drain period; the subject may also know a frozen member (swallows packets, accepts streams, never answers) and run with TCPTimeout 400 ms or 10 s: every TCP fallback ping stream is closed within two probe intervals of its dial, and a stream exchange the node dialled is gone one scaled probe interval after Shutdown (with TCPTimeout 10 s that is the listed finding C20-stream-outlives-shutdown: counted, must be gone by dial + TCPTimeout). The "
          "real-time variant releases 2-6 calls (incl. Leave || Leave, Shutdown || Shutdown, UpdateNode || UpdateNode) truly concurrently with 40 ms probe intervals on a transport whose Shutdown takes 15 ms (every return of Shutdown must find the transport closed); both variants also run under the race detector. The socket variant runs the same kind of call groups against memberlist's own NetTransport on loopback (created by Create, handed over, or hidden behind the plain Transport interface; keyring / SecretKey / label): every Shutdown that returned finds listener and UDP socket closed, the same port can be reused at once, a Create that gets only one of its two ports leaves nothing behind, and 10 s after all nodes were shut down no goroutine is inside memberlist. non-trivial = a concurrent group of >= 2 calls or a call at the left-and-reaped stage"),
    tests=[
        dict(name="life", run="^TestLifecycle$", quick=dict(shards=10, checks=120, timeout=600), thorough=dict(shards=10, checks=5000, timeout=3400)),
        dict(name="life-race", run="^TestLifecycle$", race=True, quick=dict(shards=3, checks=25, timeout=900), thorough=dict(shards=8, checks=80, timeout=3400)),
        dict(name="known", kind="plain", run="^TestKnownStreamOutlivesShutdown$", quick=dict(shards=1, timeout=300)),
        dict(name="rt-race", run="^TestLifecycleRealtime$", race=True, quick=dict(shards=3, checks=40, timeout=900), thorough=dict(shards=8, checks=300, timeout=3400)),
        dict(name="sock", run="^TestLifecycleSockets$", quick=dict(shards=2, checks=60, timeout=600), thorough=dict(shards=4, checks=3000, timeout=3400)),
        dict(name="sock-race", run="^TestLifecycleSockets$", race=True, quick=dict(shards=1, checks=25, timeout=900), thorough=dict(shards=6, checks=120, timeout=3400)),
    ],
    required_labels=dict(both=["TestLifecycleSockets/sock-shutdown", "TestLifecycleSockets/sock-restart", "TestLifecycleSockets/sock-halfbound-1",
                               "TestLifecycleSockets/sock-mode-0", "TestLifecycleSockets/sock-mode-2"]),
    assumptions=CLUSTER_ASSUMPTIONS + [
        "the socket variant (memberlist's own NetTransport on loopback) reads the kernel socket table and this process's descriptor table to decide whether a port is still held; leftover goroutines are looked for during 10 s of real time",
        "a group that does not return within 60 s of real time (each call is bounded by 0.2 s) is reported as a deadlock",
        "data races are reported by the Go race detector only on interleavings that occurred",
    ],
)

PROPS["C09"] = dict(
    title="Join and push/pull are mutual, all-or-nothing, vetoable; hearsay never kills",
    pkg="./props/c09",
    level="fault_enumeration",
    rule=("one real node holding two members, as host (a scripted peer dials in) or as joiner (Join to a scripted host); label none/'lbl', encryption, "
          "compression, merge delegate (vetoes names starting with 'veto') and alive delegate (filters 'filt') on/off; remote state lists of 0-64 rows over "
          "a name pool with duplicates, the receiver itself and its members, all four states, incarnations around the held one, version vectors drawn "
          "byte-wise from {0,1,2,3,5,6,255} or short/absent, other addresses; user state 0-64 KiB; the direction towards the real node is cut at a "
          "generated byte offset (0, 1, 2, 1%, 50%, 90%, 99%, last byte, anywhere, and structural points: end of header, every row boundary, start/middle/last byte of the user state) by reset / EOF / stall, or sealed under a foreign key, the wrong label, "
          "sent in clear, or declares over-cap node counts / state sizes. Oracle: for every certain rejection cause (cut, authentication, cap, veto, two "
          "alive full-vector nodes whose current version lies outside the other's range) the node's state dump, Members(), event log and MergeRemoteState log "
          "are unchanged and Join returns an error with 0 successes; when Join reports success the joiner lists the host and every reported-alive row that "
          "passes its own filters; a dead/suspect row about a held member never removes it before the minimum suspicion timeout and a refutation keeps it; a held member may have been upgraded (re-announced with another version vector) before the exchange; every merge is followed by an honest exchange from a peer speaking the node's own versions, which must be admitted. "
          "mutuality: a real joiner and a real host with 0-4 members: at Join's return the joiner lists everything the host listed, and with the network "
          "frozen the host lists the joiner once its handler finished. Refusal at the cap on concurrent exchanges (0-300 stalled inbound push/pulls): the cap holds, and once the stalled ones have timed out an honest exchange is served again; likewise after 1-300 exchanges that were cut in the middle one after the other. non-trivial = cut strictly inside the message / rejected non-empty list / hearsay / "
          "successful join; distinct = distinct plans"),
    tests=[
        dict(name="aon", run="^TestAllOrNothing$", quick=dict(shards=12, checks=250, timeout=600), thorough=dict(shards=12, checks=8000, timeout=3400)),
        dict(name="mutual", run="^TestMutualJoin$", quick=dict(shards=3, checks=80, timeout=600), thorough=dict(shards=3, checks=2700, timeout=3000)),
        dict(name="race", run="^(TestAllOrNothing|TestMutualJoin)$", race=True, quick=dict(shards=1, checks=40, timeout=900), thorough=dict(shards=6, checks=250, timeout=3000)),
        # exchanges refused at the concurrency cap must leave nothing behind either: once the pending ones are gone an honest exchange is served again
        dict(name="cap", pkg="./props/c13", run="^(TestConcurrentPushPullCap|TestCutExchangesLeaveNothing)$", quick=dict(shards=1, checks=40, timeout=600), thorough=dict(shards=2, checks=600, timeout=3000)),
    ],
    required_labels=dict(both=["TestAllOrNothing/hearsay", "TestAllOrNothing/rejected:stream cut", "TestAllOrNothing/rejected:vetoed by the merge delegate",
                               "TestAllOrNothing/rejected:incompatible versions", "TestAllOrNothing/join-ok", "TestAllOrNothing/merged"]),
    assumptions=PUPPET_ASSUMPTIONS + ["acceptance of an exchange is never asserted from the version model, only the certain rejections are"],
)
