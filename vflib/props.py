"""Per-property configuration for the vf driver: which test binaries, how many
shards / cases per tier, the non-triviality rule that the evidence reports and
the assumptions of each check."""

COMMON_ASSUMPTIONS = [
    "pgregory.net/rapid v1.3.0 generators and shrinking; Go 1.25 runtime",
    "absence of a counterexample among the generated cases is not a proof",
]

PROPS = {}

PROPS["C10"] = dict(
    title="Broadcast queue: no silent loss, exactly-once completion, bounded retransmits",
    pkg="./props/c10",
    level="exploration",
    rule=("rapid-generated sequences (0-40 ops) of QueueBroadcast(named incl. empty name / unique / plain with Invalidates) / "
          "GetBroadcasts(overhead 0-3, limit 0-300 or unbounded) / Prune / Reset / NumQueued / change of NumNodes, "
          "RetransmitMult 0-4, started from a zero-value queue, compared after every step with a list-based reference "
          "model (NumQueued, Finished() count per broadcast, exact selection by pointer identity, size budget, one per name) "
          "and drained at the end; non-trivial = an enqueue after some item was re-inserted below its limit, or equal-length "
          "items coexisting, or Prune/Reset called; distinct = distinct operation sequences (hash of the plan)"),
    tests=[
        dict(name="model", run="^TestQueueModel$",
             quick=dict(shards=8, checks=15000, timeout=300),
             thorough=dict(shards=16, checks=400000, timeout=1800)),
    ],
    required_labels=dict(both=["TestQueueModel/enqueue-after-reinsert", "TestQueueModel/equal-length-coexist",
                               "TestQueueModel/prune", "TestQueueModel/reset", "TestQueueModel/emptied-by-get"]),
    assumptions=COMMON_ASSUMPTIONS + [
        "identity of returned messages is established by the backing-array pointer of Message() (the queue returns the slices it was given)",
        "a zero-length message whose overhead exactly exhausts the limit may or may not be returned (both readings of 'fits' accepted)",
    ],
)
