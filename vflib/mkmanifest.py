#!/usr/bin/env python3
"""Regenerate /verif/MANIFEST.json from vflib/props.py (claimed checks) and
properties.jsonl (everything not yet claimed is listed under not_applicable
with its reason from NOT_CLAIMED)."""
import json, os, sys
ROOT = os.path.dirname(os.path.dirname(os.path.abspath(__file__)))
sys.path.insert(0, os.path.join(ROOT, "vflib"))
from props import PROPS
try:
    from props import NOT_CLAIMED
except ImportError:
    NOT_CLAIMED = {}

ids = [json.loads(l)["id"] for l in open(os.path.join(ROOT, "properties.jsonl")) if l.strip()]
checks = []
for pid in ids:
    if pid not in PROPS:
        continue
    P = PROPS[pid]
    checks.append({
        "property_id": pid,
        "quick_cmd": "./vf check %s --tier quick" % pid,
        "thorough_cmd": "./vf check %s --tier thorough" % pid,
        "evidence_file": "/verif/evidence/%s.json" % pid,
        "replay_cmd_template": "./vf check %s --replay {path}" % pid,
        "engine": "vf",
        "level_claimed": {"category": P["level"], "text": P.get("level_text", ""), "design_ref": P.get("design_ref", "DESIGN.md section 3, " + pid)},
        "level_note": P.get("level_note", "; ".join(P.get("assumptions", []))),
        "technique": P.get("technique", "property-based testing (rapid) against a reference model"),
    })
na = []
for pid in ids:
    if pid not in PROPS:
        na.append({"property_id": pid, "reason": NOT_CLAIMED.get(pid, "check not built yet (work in progress; see DESIGN.md section 6 build order)")})
m = {
    "version": 1,
    "setup_cmd": "./vf setup",
    "hooks": {
        "guard": "vfhook",
        "enable": "no source change in /repo: in-package helpers live under /verif/hooks and are compiled into package memberlist with `go test -tags vfhook -overlay <json> -modfile <copy of /repo/go.mod + rapid>` by ./vf; with the tag off /repo is the tree as committed",
        "baseline_off_cmd": "cd /repo && go test -vet=off -count=1 -timeout 25m ./...",
        "source_commits": [],
        "add_only": True,
    },
    "engines": [{"name": "vf", "path": "/verif/vf", "serves_properties": [c["property_id"] for c in checks],
                 "kind_free_text": "python driver that rebuilds Go test binaries (rapid property tests, exhaustive small-domain sweeps, native go fuzz targets) from /verif/harness against /repo's working tree, shards them over the cores, merges their statistics into evidence and maps outcomes to exit codes"}],
    "checks": checks,
    "not_applicable": na,
    "notes": "Technique family: property-based testing and fuzzing only. VERIF_SEED selects the rapid seed (shard k uses seed*1000+k+1). Exit 2 = inconclusive (never a violation). known_findings.json lists fixed and known genuine defects.",
}
json.dump(m, open(os.path.join(ROOT, "MANIFEST.json"), "w"), indent=1)
print("MANIFEST.json: %d checks, %d not_applicable" % (len(checks), len(na)))
